"""Helpers to drive a real GN/BTP stack: request builders and a tiny world (clock + ether + stations)."""
from __future__ import annotations

from flexstack.geonet.service_access_point import (
    GNDataRequest, PacketTransportType, HeaderType, TopoBroadcastHST, GeoBroadcastHST, GeoAnycastHST,
    TrafficClass, Area, CommonNH, HeaderSubType)
from flexstack.btp.service_access_point import BTPDataRequest

from .vclock import VClock
from .ether import Ether
from .stations import Station

SHAPES = ("circle", "rect", "elip")
GBC_HST = {"circle": GeoBroadcastHST.GEOBROADCAST_CIRCLE, "rect": GeoBroadcastHST.GEOBROADCAST_RECT,
           "elip": GeoBroadcastHST.GEOBROADCAST_ELIP}
GAC_HST = {"circle": GeoAnycastHST.GEOANYCAST_CIRCLE, "rect": GeoAnycastHST.GEOANYCAST_RECT,
           "elip": GeoAnycastHST.GEOANYCAST_ELIP}


def ptt(kind: str, shape: str = "circle") -> PacketTransportType:
    if kind == "shb":
        return PacketTransportType(header_type=HeaderType.TSB, header_subtype=TopoBroadcastHST.SINGLE_HOP)
    if kind == "gbc":
        return PacketTransportType(header_type=HeaderType.GEOBROADCAST, header_subtype=GBC_HST[shape])
    if kind == "gac":
        return PacketTransportType(header_type=HeaderType.GEOANYCAST, header_subtype=GAC_HST[shape])
    if kind == "guc":
        return PacketTransportType(header_type=HeaderType.GEOUNICAST, header_subtype=HeaderSubType.UNSPECIFIED)
    raise ValueError(kind)


def tc(scf=False, co=False, tcid=0) -> TrafficClass:
    return TrafficClass(scf=bool(scf), channel_offload=bool(co), tc_id=tcid)


def area(lat, lon, a, b, angle) -> Area:
    return Area(latitude=lat, longitude=lon, a=a, b=b, angle=angle)


def gn_request(kind, data=b"", shape="circle", ar=None, nh=CommonNH.BTP_B, traffic=None, hop=1, lifetime=None,
               dest=None) -> GNDataRequest:
    kw = dict(upper_protocol_entity=nh, packet_transport_type=ptt(kind, shape), traffic_class=traffic or tc(),
              length=len(data), data=data, max_hop_limit=hop, max_packet_lifetime=lifetime)
    if ar is not None:
        kw["area"] = ar
    if dest is not None:
        kw["destination"] = dest
    return GNDataRequest(**kw)


def btp_request(kind, data=b"", btp="B", dport=0, sport=0, info=0, shape="circle", ar=None, traffic=None, hop=1,
                lifetime=None, dest=None) -> BTPDataRequest:
    kw = dict(btp_type=CommonNH.BTP_B if btp == "B" else CommonNH.BTP_A, source_port=sport, destination_port=dport,
              destination_port_info=info, gn_packet_transport_type=ptt(kind, shape), gn_max_hop_limit=hop,
              gn_max_packet_lifetime=lifetime, traffic_class=traffic or tc(), length=len(data), data=data)
    if ar is not None:
        kw["gn_area"] = ar
    if dest is not None:
        kw["gn_destination_address"] = dest
    return BTPDataRequest(**kw)


class World:
    """Virtual clock + ether + stations, with teardown."""

    def __init__(self, t0=None):
        self.clock = VClock(t0) if t0 is not None else VClock()
        self.clock.install()
        self.ether = Ether(self.clock)
        self.stations: dict[str, Station] = {}

    def add(self, name, mid, **kw) -> Station:
        s = Station(self.ether, name, mid, clock=self.clock, **kw)
        self.stations[name] = s
        return s

    def settle(self, max_rounds=2000):
        return self.ether.drain(max_rounds)

    def close(self):
        self.clock.uninstall()

    def __enter__(self):
        return self

    def __exit__(self, *a):
        self.close()


def mid_of(i: int) -> bytes:
    return bytes([0x02, 0x00, 0x00, 0x00, (i >> 8) & 0xFF, i & 0xFF])
