"""Driver: ./check <Cnn> [--tier quick|thorough] [--seed N] [--replay file] [--jobs N]

A check = this driver + worker subprocesses (one per shard, never multiprocessing.Pool).
Worker death or timeout makes the run INCONCLUSIVE (exit 2), never held and never violated.
"""
from __future__ import annotations

import argparse
import glob
import importlib
import io
import json
import os
import shutil
import subprocess
import sys
import tempfile
import time
from concurrent.futures import ThreadPoolExecutor

from . import env
from .core import Result, finish


def load_module(prop: str):
    hits = glob.glob(os.path.join(env.VERIF_DIR, "checks", f"{prop.lower()}_*.py"))
    if len(hits) != 1:
        raise SystemExit(f"no unique check module for {prop}: {hits}")
    name = os.path.splitext(os.path.basename(hits[0]))[0]
    return importlib.import_module(f"checks.{name}")


def worker_main(prop, spec_path, out_path):
    env.activate()
    mod = load_module(prop)
    with open(spec_path) as f:
        spec = json.load(f)
    res = Result()
    # the code under test prints a lot; keep the worker's stdout quiet
    real_stdout = sys.stdout
    if not os.environ.get("VERIF_VERBOSE"):
        sys.stdout = io.StringIO()
    try:
        mod.run_shard(spec, res)
    finally:
        sys.stdout = real_stdout
    with open(out_path, "w") as f:
        json.dump(res.dump(), f)
    return 0


def main(argv=None):
    ap = argparse.ArgumentParser()
    ap.add_argument("prop")
    ap.add_argument("--tier", default=os.environ.get("VERIF_TIER") or "quick", choices=["quick", "thorough"])
    ap.add_argument("--seed", type=int, default=int(os.environ.get("VERIF_SEED") or 0))
    ap.add_argument("--replay")
    ap.add_argument("--jobs", type=int, default=int(os.environ.get("VERIF_JOBS") or (os.cpu_count() or 4)))
    ap.add_argument("--worker", nargs=2, metavar=("SPEC", "OUT"))
    ap.add_argument("--inline", action="store_true", help="run shards in-process (debugging)")
    a = ap.parse_args(argv)
    prop = a.prop.upper()

    if a.worker:
        return worker_main(prop, a.worker[0], a.worker[1])

    env.activate()
    mod = load_module(prop)

    if a.replay:
        with open(a.replay) as f:
            rp = json.load(f)
        res = Result()
        os.environ["VERIF_VERBOSE"] = "1"
        for case in rp.get("cases", []):
            mod.replay(case, res)
        if res.violations:
            for k, v in res.violations.items():
                print(f"REPRODUCED key={k} count={v['count']} :: {v['desc']}")
                print("  case:", json.dumps(v["cases"][0])[:2000])
            return 1
        print("not reproduced")
        return 0

    t0 = time.monotonic()
    specs = mod.shards(a.tier, a.seed)
    res = Result()
    tmp = tempfile.mkdtemp(prefix=f"verif-{prop}-")
    default_timeout = 900 if a.tier == "quick" else 5400
    try:
        if a.inline:
            for spec in specs:
                mod.run_shard(spec, res)
        else:
            import queue
            slots = queue.Queue()
            for k in range(max(1, a.jobs)):
                slots.put(k)

            def run_one(i_spec):
                slot = slots.get()
                try:
                    return run_one_in(i_spec, slot)
                finally:
                    slots.put(slot)

            def run_one_in(i_spec, slot):
                i, spec = i_spec
                sp = os.path.join(tmp, f"s{i}.json")
                op = os.path.join(tmp, f"o{i}.json")
                with open(sp, "w") as f:
                    json.dump(spec, f)
                cmd = [sys.executable, "-B", "-X", "faulthandler", "-m", "vf.run", prop, "--worker", sp, op]
                try:
                    p = subprocess.run(cmd, cwd=env.VERIF_DIR, stdout=subprocess.DEVNULL, stderr=subprocess.PIPE,
                                       env=dict(os.environ, VERIF_SLOT=str(slot)),
                                       timeout=spec.get("timeout_s", default_timeout))
                except subprocess.TimeoutExpired:
                    return i, None, "timeout (wall-clock watchdog)"
                if p.returncode != 0 or not os.path.exists(op):
                    return i, None, f"worker exit {p.returncode}: {p.stderr.decode(errors='replace')[-1500:]}"
                with open(op) as f:
                    return i, json.load(f), None

            with ThreadPoolExecutor(max_workers=max(1, a.jobs)) as ex:
                for i, dump, err in ex.map(run_one, list(enumerate(specs))):
                    if err:
                        res.inconc(f"shard {i}: {err}")
                        print(f"[{prop}] shard {i} failed: {err}", file=sys.stderr)
                    else:
                        res.merge_dump(dump)
    finally:
        shutil.rmtree(tmp, ignore_errors=True)
    extra = {"shards": len(specs)}
    if hasattr(mod, "coverage_extra"):
        extra.update(mod.coverage_extra(res))
    return finish(prop, mod, a.tier, a.seed, res, time.monotonic() - t0, extra)


if __name__ == "__main__":
    sys.exit(main())
