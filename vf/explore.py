"""Schedule exploration shared by the controlled-scheduler checks (C15, C16).

run_one(plan, policy, mode, log_from, instr_points) must execute one fresh scenario under vf.sched.Scheduler, judge it and
return the Scheduler.  Modes (per scenario):
  sync   breadth-first over schedules with up to 3 preemptions placed at synchronisation operations only
         (lock acquire/release, timer start/cancel, transmission, actor start) -- the check-then-act windows
  instr  every single preemption at every shared-state instruction (k = 1), then sampled pairs of preemptions
  random randomised schedules: geometric run lengths (change probability p per point), timers eager or lazy
"""
from __future__ import annotations

import os
from collections import deque


def pin_to_one_cpu():
    """All threads of this worker hand control to each other one at a time: on a single CPU the hand-over is a plain
    context switch instead of a cross-CPU wake-up (much less kernel time when 16 workers run)."""
    try:
        cpus = sorted(os.sched_getaffinity(0))
        os.sched_setaffinity(0, {cpus[int(os.environ.get("VERIF_SLOT", os.getpid())) % len(cpus)]})
    except (AttributeError, OSError):
        pass


def dfs(run_one, res, mode, kmax, budget, sh, nsh, rng):
    instr = mode == "instr"
    queue = deque([()])          # breadth first: every single preemption before any pair of preemptions
    n = 0
    first_level = []
    while queue and n < budget:
        plan = queue.popleft()
        leaf = len(plan) >= kmax
        last = plan[-1][0] if plan else -1
        s = run_one(plan, None, mode, None if leaf else last + 1, instr)
        n += 1
        if leaf:
            continue
        kids = []
        for i in sorted(s.enabled_log):
            if s.pre_log[i] >= kmax:
                break
            if mode == "sync" and s.kind_log[i] != "sync":
                continue
            if not plan and i % nsh != sh:
                continue
            for alt in range(len(s.enabled_log[i])):
                if s.devs.get(i, None) == alt:
                    continue
                if i not in s.devs and alt == s.default_log.get(i):
                    continue         # the default choice is not a deviation
                kids.append(plan + ((i, alt),))
        if not plan:
            res.observe_max(f"{mode}.first_level_points", len(s.enabled_log))
            first_level = list(kids)
        rng.shuffle(kids)        # sample uniformly when the budget ends inside a level
        if len(queue) < 200000:
            queue.extend(kids)
    res.count(f"{mode}.schedules", n)
    if not queue:
        res.count(f"{mode}.shards_exhausted_up_to_k{kmax}")
    else:
        res.count(f"{mode}.shards_budget_limited")
    return first_level


def explore(run_one, res, mode, budget, sh, nsh, rng):
    pin_to_one_cpu()
    if mode == "sync":
        dfs(run_one, res, "sync", 3, budget, sh, nsh, rng)
    elif mode == "instr":
        first = dfs(run_one, res, "instr", 1, budget, sh, nsh, rng)
        # pairs of preemptions: a sampled first preemption (logged run), then sampled second preemptions after it
        n = 0
        pair_budget = budget // 2
        while first and n < pair_budget:
            plan = rng.choice(first)
            s = run_one(plan, None, "instr", plan[-1][0] + 1, True)
            n += 1
            kids = [plan + ((i, alt),) for i in s.enabled_log for alt in range(len(s.enabled_log[i]))
                    if alt != s.default_log[i] and s.pre_log[i] < 2]
            for kid in rng.sample(kids, min(len(kids), 10)):
                run_one(kid, None, "instr", None, True)
                n += 1
        res.count("instr.pair_schedules", n)
    else:
        for _ in range(budget):
            p = rng.choice((0.005, 0.02, 0.05, 0.15, 0.4))
            eager = rng.choice((0.0, 0.0, 0.5, 0.9))       # probability of expiring a timer as soon as it is armed
            state = {"timers_seen": 0}

            def policy(en, cur_idx, sched, p=p, eager=eager, state=state):
                n = 0
                while rng.random() > p and n < 400:
                    n += 1
                sched.free_steps = n                      # the chosen actor then runs n points without asking
                tim = [i for i, x in enumerate(en) if x[0] == "timer"]
                if tim and len(sched.timers) > state["timers_seen"]:
                    state["timers_seen"] = len(sched.timers)
                    if rng.random() < eager:
                        return tim[-1]
                return rng.randrange(len(en))
            run_one((), policy, "random", None, True)
            res.count("random.schedules")
