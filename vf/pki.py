"""Real certificate chains for the security checks, built with the repository's issuing API
(OwnCertificate.initialize_certificate: root -> AA -> ATs), plus attacker material and an independent chain checker
(ecdsa used directly on the OER images; own permission / validity arithmetic)."""
from __future__ import annotations

import copy
import hashlib

import ecdsa

from flexstack.security.certificate import OwnCertificate, Certificate, SECURITY_CODER
from flexstack.security.certificate_library import CertificateLibrary
from flexstack.security.ecdsa_backend import PythonECDSABackend
from flexstack.security.sign_service import SignService
from flexstack.security.verify_service import VerifyService

ITS_EPOCH = 1072915200
CRACA = b"\x00\x00\x00"
PSID_CAM, PSID_DENM, PSID_VAM = 36, 37, 638
DUR_S = {"microseconds": 1e-6, "milliseconds": 1e-3, "seconds": 1, "minutes": 60, "hours": 3600, "sixtyHours": 216000, "years": 31556952}


def t32(utc):
    return int(utc) - ITS_EPOCH


def _groups(groups):
    return [{"subjectPermissions": ("all", None) if ps == "all" else ("explicit", [{"psid": p} for p in ps]), "minChainLength": ch, "chainLengthRange": 0,
             "eeType": (b"\x00", 1)} for ps, ch in groups]


def root_tbs(now, name="root-ca.test", chain=2, psids="all", dur=("years", 10), groups=None):
    """groups: [(psids | "all", minChainLength), ...] for issuers whose PSID groups have different remaining chain lengths."""
    return {"id": ("name", name), "cracaId": CRACA, "crlSeries": 0, "validityPeriod": {"start": t32(now) - 1000, "duration": dur},
            "certIssuePermissions": _groups(groups if groups is not None else [(psids, chain)]),
            "verifyKeyIndicator": ("verificationKey", ("ecdsaNistP256", ("fill", None)))}


def aa_tbs(now, psids=(PSID_CAM, PSID_DENM, PSID_VAM), name="aa.test", chain=1, dur=("years", 10), app_psids=None):
    sp = ("all", None) if psids == "all" else ("explicit", [{"psid": p} for p in psids])
    d = {"id": ("name", name), "cracaId": CRACA, "crlSeries": 0, "validityPeriod": {"start": t32(now) - 1000, "duration": dur},
         "certIssuePermissions": [{"subjectPermissions": sp, "minChainLength": chain, "chainLengthRange": 0, "eeType": (b"\x00", 1)}],
         "verifyKeyIndicator": ("verificationKey", ("ecdsaNistP256", ("fill", None)))}
    if app_psids:
        # an authority that also holds application permissions of its own (e.g. for its own CRL/CTL service messages)
        d["appPermissions"] = [{"psid": p} for p in app_psids]
    return d


def at_tbs(now, psids=(PSID_CAM, PSID_DENM, PSID_VAM), start=None, dur=("years", 10)):
    return {"id": ("none", None), "cracaId": CRACA, "crlSeries": 0,
            "validityPeriod": {"start": t32(now) - 1000 if start is None else start, "duration": dur},
            "appPermissions": [{"psid": p} for p in psids],
            "verifyKeyIndicator": ("verificationKey", ("ecdsaNistP256", ("fill", None)))}


class PKI:
    """root -> aa -> n ATs, all keys in one backend (the issuing authority's view)."""

    def __init__(self, now, n_at=2, aa_psids=(PSID_CAM, PSID_DENM, PSID_VAM, 99), at_psids=(PSID_CAM, PSID_DENM, PSID_VAM, 99), name="good",
                 root_psids="all", aa_app_psids=None, root_groups=None, handmade_aa=False, at_validity=None):
        self.backend = PythonECDSABackend()
        self.now = now
        self.root = OwnCertificate.initialize_certificate(self.backend, root_tbs(now, f"root.{name}", psids=root_psids, groups=root_groups), None)
        if handmade_aa:
            # the AA certificate is put together here (shell for the key, issuer digest and signature by the root key) so that
            # its content is exactly what was asked for, whatever the issuing API of the code under test would make of it
            shell = OwnCertificate.initialize_certificate(self.backend, aa_tbs(now, aa_psids, f"aa.{name}", app_psids=aa_app_psids), None)
            d = copy.deepcopy(shell.certificate)
            d["issuer"] = ("sha256AndDigest", self.root.as_hashedid8())
            self.aa = OwnCertificate(certificate=resign(d, self.backend, self.root.key_id), issuer=self.root, key_id=shell.key_id)
        else:
            self.aa = OwnCertificate.initialize_certificate(self.backend, aa_tbs(now, aa_psids, f"aa.{name}", app_psids=aa_app_psids), self.root)
        # at_validity: per ticket (age in s, duration) - tickets that are valid now but well into their validity period
        av = at_validity or [None] * n_at
        self.ats = [OwnCertificate.initialize_certificate(self.backend, at_tbs(now, at_psids) if av[i] is None else
                                                          at_tbs(now, at_psids, t32(now) - av[i][0], av[i][1]), self.aa) for i in range(n_at)]
        if not handmade_aa:
            assert self.root.verify(self.backend) and self.aa.verify(self.backend) and all(a.verify(self.backend) for a in self.ats)

    def new_at(self, psids=(PSID_CAM, PSID_DENM, PSID_VAM), start=None, dur=("years", 10)):
        at = OwnCertificate.initialize_certificate(self.backend, at_tbs(self.now, psids, start, dur), self.aa)
        self.ats.append(at)
        return at

    def station(self, at: OwnCertificate, known_ats=(), with_aa=True, with_root=True):
        """A station's security entities holding ticket `at` (own backend: only its own private key)."""
        backend = PythonECDSABackend()
        kid = backend.import_signing_key(self.backend.export_signing_key(at.key_id))
        own = OwnCertificate(certificate=copy.deepcopy(at.certificate), issuer=self.aa, key_id=kid)
        lib = CertificateLibrary(backend, [self.root] if with_root else [], [self.aa] if with_aa else [], list(known_ats))
        lib.add_own_certificate(own)
        sign = SignService(backend, lib)
        verify = VerifyService(backend, lib, sign)
        return {"backend": backend, "lib": lib, "sign": sign, "verify": verify, "own": own}


def strip(cert: Certificate) -> Certificate:
    """The same certificate as a plain (non-own) Certificate with its issuer attached."""
    return Certificate(certificate=copy.deepcopy(cert.certificate), issuer=cert.issuer)


def resign(cert_dict: dict, backend: PythonECDSABackend, key_id: int) -> dict:
    """Sign cert_dict's toBeSigned with an arbitrary key (attacker / wrong issuer)."""
    d = copy.deepcopy(cert_dict)
    d["signature"] = backend.sign(SECURITY_CODER.encode_ToBeSignedCertificate(d["toBeSigned"]), key_id)
    return d


# ------------------------------------------------------------------------------------------ independent checker
def hashedid8(cert_dict) -> bytes:
    return hashlib.sha256(SECURITY_CODER.encode_etsi_ts_103097_certificate(cert_dict)).digest()[-8:]


def _pubkey(cert_dict):
    vki = cert_dict["toBeSigned"]["verifyKeyIndicator"]
    if vki[0] != "verificationKey" or vki[1][0] != "ecdsaNistP256":
        return None
    pt = vki[1][1]
    if pt[0] != "uncompressedP256":
        return None
    try:
        point = ecdsa.ellipticcurve.Point(ecdsa.NIST256p.curve, int.from_bytes(pt[1]["x"], "big"), int.from_bytes(pt[1]["y"], "big"), ecdsa.NIST256p.order)
        return ecdsa.VerifyingKey.from_public_point(point, curve=ecdsa.NIST256p)
    except Exception:  # noqa
        return None


def sig_ok(cert_dict, issuer_dict) -> bool:
    vk = _pubkey(issuer_dict)
    sig = cert_dict.get("signature")
    if vk is None or sig is None or sig[0] != "ecdsaNistP256Signature" or sig[1]["rSig"][0] != "x-only":
        return False
    r, s = int.from_bytes(sig[1]["rSig"][1], "big"), int.from_bytes(sig[1]["sSig"], "big")
    try:
        return vk.verify(ecdsa.util.sigencode_string(r, s, ecdsa.NIST256p.order), SECURITY_CODER.encode_ToBeSignedCertificate(cert_dict["toBeSigned"]),
                         hashfunc=hashlib.sha256)
    except Exception:  # noqa
        return False


def needed_psids(cert_dict):
    tbs = cert_dict["toBeSigned"]
    out = [p["psid"] for p in tbs.get("appPermissions", [])]
    for perm in tbs.get("certIssuePermissions", []):
        if perm["subjectPermissions"][0] == "explicit":
            out += [e["psid"] for e in perm["subjectPermissions"][1]]
        else:
            out.append("all")
    return out


def issuer_allows(issuer_dict, psids) -> bool:
    perms = issuer_dict["toBeSigned"].get("certIssuePermissions", [])
    if any(p["subjectPermissions"][0] == "all" for p in perms):
        return True
    allowed = {e["psid"] for p in perms if p["subjectPermissions"][0] == "explicit" for e in p["subjectPermissions"][1]}
    return all(p in allowed for p in psids)


def issuing_budget(issuer_dict, psids) -> int:
    """Remaining chain length the issuer has for ALL of the given PSIDs: min over the PSIDs of the best covering group
    (-1 when some PSID is not covered at all)."""
    perms = issuer_dict["toBeSigned"].get("certIssuePermissions", [])
    worst = None
    for p in psids:
        best = -1
        for g in perms:
            sp = g["subjectPermissions"]
            if sp[0] == "all" or (p != "all" and any(e["psid"] == p for e in sp[1])):
                best = max(best, g["minChainLength"])
        worst = best if worst is None else min(worst, best)
    return -1 if worst is None else worst


def chain_ok(cert_dict, store: dict, roots: dict, depth=0):
    """Does cert_dict verify up to a configured root through in-store issuers?  store/roots: hashedid8 -> cert dict.
    Returns (ok, reason)."""
    if depth > 4:
        return False, "chain too long"
    iss = cert_dict["issuer"]
    if iss[0] == "self":
        h = hashedid8(cert_dict)
        if h in roots and sig_ok(cert_dict, cert_dict):
            return True, ""
        return False, "self-signed certificate that is not a configured root"
    if iss[0] != "sha256AndDigest":
        return False, "unsupported issuer choice"
    issuer = roots.get(iss[1]) or store.get(iss[1])
    if issuer is None:
        return False, "issuer not in the store"
    if hashedid8(issuer) != iss[1]:
        return False, "issuer digest does not correspond"
    if not sig_ok(cert_dict, issuer):
        return False, "signature does not verify under the issuer's key"
    if not issuer_allows(issuer, needed_psids(cert_dict)):
        return False, "permissions not contained in the issuer's issuing permissions"
    return chain_ok(issuer, store, roots, depth + 1)


def validity_window_us(cert_dict):
    vp = cert_dict["toBeSigned"]["validityPeriod"]
    start = vp["start"]
    unit, n = vp["duration"]
    return start * 1_000_000, int((start + n * DUR_S[unit]) * 1_000_000)
