"""Controlled scheduler: chooses, records and replays the interleaving of *bytecode instructions of the real code*.

* `sys.monitoring` INSTRUCTION events are enabled on the code objects of the monitored modules; at every instruction that
  touches shared state (attribute / subscript access, calls, membership tests) the running actor parks on its own semaphore
  and the controller decides who runs next, so exactly one actor runs at a time and a schedule is a list of choices.
* Locks created by the code under test are scheduler-aware proxies (the module-level names `Lock`/`RLock` are rebound before
  the objects are constructed): acquire = take if free, else mark the actor blocked and yield; a deadlock is *detected* (all
  live actors blocked) instead of hanging the run.
* Timers started by the code are schedulable: the controller may fire a started, not yet cancelled timer at any later step
  -- including between the instructions of a cancel() caller -- which is how "expiry racing with cancellation" is produced.
* Exploration: stateless DFS over schedules with at most k preemptions, plus randomised schedules.
"""
from __future__ import annotations

import dis
import random
import sys
import threading
import _thread
import time
import types

TOOL = 3
# shared-state accesses, plus the instructions at which CPython 3.12 itself hands over the GIL (function entry, loop
# back-edges, calls)
INTERESTING = {"LOAD_ATTR", "STORE_ATTR", "DELETE_ATTR", "BINARY_SUBSCR", "STORE_SUBSCR", "DELETE_SUBSCR", "CALL", "CALL_FUNCTION_EX", "CONTAINS_OP",
               "LOAD_METHOD", "JUMP_BACKWARD", "FOR_ITER", "RESUME", "COMPARE_OP"}

_current: "Scheduler | None" = None


def code_objects_of(module):
    seen = []

    def walk(co):
        if co in seen:
            return
        seen.append(co)
        for c in co.co_consts:
            if isinstance(c, types.CodeType):
                walk(c)
    for v in vars(module).values():
        if isinstance(v, types.FunctionType) and v.__module__ == module.__name__:
            walk(v.__code__)
        elif isinstance(v, type) and v.__module__ == module.__name__:
            for m in vars(v).values():
                f = getattr(m, "__func__", m)
                if isinstance(f, types.FunctionType):
                    walk(f.__code__)
                elif isinstance(m, property) and m.fget:
                    walk(m.fget.__code__)
    return seen


class Instrument:
    """Process-wide installation of the monitoring tool on a set of modules (done once per worker)."""

    def __init__(self, modules):
        self.points = {}
        self.codes = []
        for mod in modules:
            for co in code_objects_of(mod):
                self.codes.append(co)
                self.points[co] = {ins.offset for ins in dis.get_instructions(co) if ins.opname in INTERESTING}
        mon = sys.monitoring
        try:
            mon.use_tool_id(TOOL, "verif-sched")
        except ValueError:
            pass
        mon.register_callback(TOOL, mon.events.INSTRUCTION, self._on_instruction)
        for co in self.codes:
            mon.set_local_events(TOOL, co, mon.events.INSTRUCTION)
        self.hits = 0

    def _on_instruction(self, code, offset):
        pts = self.points.get(code)
        if pts is None or offset not in pts:
            return sys.monitoring.DISABLE
        s = _current
        if s is None:
            return None
        a = s.by_ident.get(threading.get_ident())
        if a is None:
            return None
        if not s.instr_points:
            return None
        self.hits += 1
        a.at = (code.co_name, offset)
        a.kind = "instr"
        s.point(a)
        return None


class Worker:
    """A pooled OS thread: actors of successive executions reuse it (thread creation is the dominant kernel cost)."""
    pool = []

    def __init__(self):
        self.job = _thread.allocate_lock()
        self.job.acquire()
        self.actor = None
        self.thread = threading.Thread(target=self._loop, daemon=True)
        self.thread.start()
        self.ident = self.thread.ident

    def _loop(self):
        while True:
            self.job.acquire()
            a, self.actor = self.actor, None
            a._run(self)

    @classmethod
    def get(cls):
        try:
            return cls.pool.pop()
        except IndexError:
            return cls()


class Actor:
    def __init__(self, sched, name, fn):
        self.sched = sched
        self.name = name
        self.fn = fn
        self.go = _thread.allocate_lock()      # binary hand-over: held = the actor must wait
        self.go.acquire()
        self.done = False
        self.started = False
        self.exc = None
        self.result = None
        self.blocked_on = None
        self.at = None
        self.kind = "sync"       # what the actor is parked at: "sync" (lock/timer/send operation, start) or "instr"
        self.steps = 0
        self.ident = None
        self.sleep_until = None

    def start(self):
        w = Worker.get()
        self.ident = w.ident
        self.sched.by_ident[w.ident] = self
        self.started = True
        w.actor = self
        w.job.release()

    def _run(self, worker):
        s = self.sched
        self.go.acquire()
        try:
            self.result = self.fn()
        except BaseException as e:  # noqa
            self.exc = e
        finally:
            self.done = True
            Worker.pool.append(worker)
            try:
                s.arrived.release()
            except RuntimeError:
                pass


class SchedLock:
    """Drop-in for threading.Lock / RLock under the scheduler."""

    def __init__(self, reentrant=False):
        self.reentrant = reentrant
        self.owner = None
        self.count = 0

    def acquire(self, blocking=True, timeout=-1):
        s = _current
        me = threading.get_ident()
        a = s.by_ident.get(me) if s else None
        if a is not None and not (self.reentrant and self.owner == me):
            s.sync_point(a, "acquire")
        while True:
            if self.owner is None or (self.reentrant and self.owner == me):
                self.owner = me
                self.count += 1
                if a is not None:
                    a.blocked_on = None
                return True
            if not blocking:
                return False
            if a is None:
                raise RuntimeError("non-actor thread would block on a scheduler lock")
            if s.abort:
                raise Deadlock("abandoned after the verdict")
            a.blocked_on = self
            a.kind = "sync"
            s.lock_waits += 1
            s.park(a)

    def release(self):
        self.count -= 1
        if self.count <= 0:
            self.owner = None
            self.count = 0
            s = _current
            a = s.by_ident.get(threading.get_ident()) if s else None
            if a is not None:
                s.sync_point(a, "release")

    def locked(self):
        return self.owner is not None

    __enter__ = acquire

    def __exit__(self, *a):
        self.release()


def Lock():
    return SchedLock(False)


def RLock():
    return SchedLock(True)


class SchedTimer:
    """threading.Timer drop-in whose expiry is an action of the controller."""

    def __init__(self, interval, function, args=None, kwargs=None):
        self.interval = interval
        self.function = function
        self.args = list(args or [])
        self.kwargs = dict(kwargs or {})
        self.daemon = True
        self.started = False
        self.cancelled = False
        self.fired = False
        self.name = None

    def start(self):
        s = _current
        self.started = True
        if s is not None:
            s.register_timer(self)
            a = s.by_ident.get(threading.get_ident())
            if a is not None:
                s.sync_point(a, "timer-start")

    def cancel(self):
        self.cancelled = True
        s = _current
        if s is not None:
            s.trace.append(("timer-cancel", self.name, s.step_no))
            a = s.by_ident.get(threading.get_ident())
            if a is not None:
                s.sync_point(a, "timer-cancel")

    def is_alive(self):
        return self.started and not self.fired and not self.cancelled

    def join(self, timeout=None):
        return None


class SchedThread:
    """threading.Thread drop-in: start() turns the target into a new actor of the running scheduler."""

    def __init__(self, group=None, target=None, name=None, args=(), kwargs=None, daemon=None):
        self.target, self.args, self.kwargs = target, tuple(args or ()), dict(kwargs or {})
        self.name = name
        self.daemon = daemon
        self.actor = None

    def start(self):
        s = _current
        if s is None:
            raise RuntimeError("SchedThread started outside a scheduled execution")
        s.thread_seq += 1
        self.name = self.name or f"thread{s.thread_seq}:{getattr(self.target, '__name__', '?')}"
        self.actor = s.add_actor(self.name, lambda: self.target(*self.args, **self.kwargs))
        self.actor.start()
        s.trace.append(("thread-start", self.name, s.step_no))
        me = s.by_ident.get(threading.get_ident())
        if me is not None:
            s.sync_point(me, "thread-start")

    def is_alive(self):
        return self.actor is not None and not self.actor.done

    def join(self, timeout=None):
        return None


def sched_sleep(dt):
    """time.sleep drop-in: the actor is not runnable before virtual time has advanced by dt; virtual time advances
    (to the earliest wake-up) only when no actor can run."""
    s = _current
    a = s.by_ident.get(threading.get_ident()) if s else None
    if a is None:
        return
    a.sleep_until = s.vtime + max(0.0, float(dt))
    a.at = ("sleep", a.at[0] if a.at else None)
    a.kind = "sync"
    s.park(a)


class Deadlock(Exception):
    pass


class Scheduler:
    """One execution.  A schedule is the list of *deviations* [(decision index, choice)] from the default policy
    (keep running the current actor; when it cannot run, the first enabled actor; timers never expire by default).
    Decision i is taken when the running actor stands at its i-th scheduling point (all actors counted together).
    An actor only parks (hands control to the controller) where a decision can differ from the default or has to be
    logged; elsewhere it advances the decision counter itself, which keeps executions cheap."""

    def __init__(self, instr_points=True):
        self.actors = []
        self.by_ident = {}
        self.arrived = _thread.allocate_lock()
        self.arrived.acquire()
        self.timers = []
        self.trace = []
        self.devs = {}           # decision index -> choice (index into the enabled list), as executed
        self.enabled_log = {}    # decision index -> names enabled           (logged decisions only)
        self.kind_log = {}       # decision index -> "sync" / "instr"
        self.pre_log = {}        # decision index -> preemptions used before it
        self.default_log = {}    # decision index -> what the default policy would choose
        self.step_no = 0
        self.lock_waits = 0
        self.timer_seq = 0
        self.max_steps = 60000
        self.watchdog_s = 30.0
        self.switches = []
        self.instr_points = instr_points
        self.plan = {}           # deviations to apply
        self.log_from = 0        # decisions >= log_from are logged (needed to derive children); None = never
        self.policy = None
        self.free_steps = 0      # randomised policies: points the current actor still runs without asking
        self.preemptions = 0
        self.current = None
        self.abort = False
        self.vtime = 0.0         # virtual time for sched_sleep
        self.thread_seq = 0
        self.on_time = None      # optional callable(vtime) when virtual time advances

    def add_actor(self, name, fn):
        a = Actor(self, name, fn)
        self.actors.append(a)
        return a

    def register_timer(self, t):
        self.timer_seq += 1
        t.name = f"timer{self.timer_seq}:{getattr(t.function, '__name__', '?')}"
        self.timers.append(t)
        self.trace.append(("timer-start", t.name, self.step_no))

    # -- actor side ----------------------------------------------------------------------------------
    def must_park(self):
        i = self.step_no
        if i in self.plan:
            return True
        if self.policy is not None:
            if self.free_steps > 0:
                self.free_steps -= 1
                return False
            return True
        return self.log_from is not None and i >= self.log_from

    def point(self, a):
        """Called by the running actor at a scheduling point."""
        if self.must_park() or self.step_no >= self.max_steps:
            self.park(a)
        else:
            self.step_no += 1      # the default decision: the same actor goes on

    def park(self, a):
        try:
            self.arrived.release()
        except RuntimeError:      # only after a watchdog expiry: the controller is no longer waiting
            pass
        a.go.acquire()

    def sync_point(self, a, what):
        a.at = (what, a.at[0] if a.at else None)
        a.kind = "sync"
        self.point(a)

    # -- controller side -------------------------------------------------------------------------------
    def _resume(self, a):
        a.steps += 1
        a.go.release()
        if not self.arrived.acquire(timeout=self.watchdog_s):
            raise TimeoutError("controller watchdog: actor did not come back")

    def enabled(self):
        out = []
        for a in self.actors:
            if a.done:
                continue
            if a.blocked_on is not None and a.blocked_on.owner is not None and not (a.blocked_on.reentrant and a.blocked_on.owner == a.ident):
                continue
            if a.sleep_until is not None:
                if a.sleep_until > self.vtime + 1e-12:
                    continue
                a.sleep_until = None
            out.append(("actor", a))
        for t in self.timers:
            if t.started and not t.cancelled and not t.fired:
                out.append(("timer", t))
        return out

    def run(self, plan=(), policy=None, log_from=0):
        global _current
        _current = self
        self.plan = dict(plan)
        self.policy = policy
        self.log_from = log_from
        for a in self.actors:
            a.start()
        outcome = {"deadlock": False, "timeout": False}
        try:
            while True:
                en = self.enabled()
                live = [a for a in self.actors if not a.done]
                if not live:
                    break
                if not en:
                    sleepers = [a.sleep_until for a in live if a.sleep_until is not None]
                    if sleepers:
                        self.vtime = min(sleepers)          # nobody can run: time passes up to the earliest wake-up
                        if self.on_time:
                            self.on_time(self.vtime)
                        continue
                if not [e for e in en if e[0] == "actor"] and not [e for e in en if e[0] == "timer"]:
                    outcome["deadlock"] = True
                    outcome["blocked"] = [(a.name, a.at) for a in live]
                    break
                if self.step_no >= self.max_steps:
                    outcome["timeout"] = True
                    break
                i = self.step_no
                current = self.current
                cur_idx = next((j for j, x in enumerate(en) if x[0] == "actor" and x[1] is current), None)
                actor_idx = [j for j, x in enumerate(en) if x[0] == "actor"]
                default = cur_idx if cur_idx is not None else (actor_idx[0] if actor_idx else 0)
                if i in self.plan:
                    idx = self.plan[i]
                    if idx >= len(en):
                        idx = default
                        outcome["plan_mismatch"] = True
                elif policy is not None:
                    idx = policy(en, cur_idx, self)
                else:
                    idx = default
                if idx != default:
                    self.devs[i] = idx
                if self.log_from is not None and i >= self.log_from:
                    self.enabled_log[i] = [x[1].name for x in en]
                    self.kind_log[i] = current.kind if cur_idx is not None else "sync"
                    self.pre_log[i] = self.preemptions
                    self.default_log[i] = default
                if cur_idx is not None and idx != cur_idx:
                    self.preemptions += 1
                    self.switches.append((current.name, current.at, en[idx][1].name))
                kind, obj = en[idx]
                self.step_no += 1
                if kind == "timer":
                    obj.fired = True
                    self.trace.append(("timer-fire", obj.name, self.step_no))
                    a = Actor(self, obj.name, lambda o=obj: o.function(*o.args, **o.kwargs))
                    self.actors.append(a)
                    a.start()
                    self.current = a
                    self._resume(a)
                else:
                    self.current = obj
                    self._resume(obj)
        except TimeoutError:
            outcome["timeout"] = True
        finally:
            _current = None
        outcome["preemptions"] = self.preemptions
        outcome["steps"] = self.step_no
        outcome["exceptions"] = [(a.name, a.exc) for a in self.actors if a.exc is not None]
        # let abandoned actors (deadlock / timeout) run free to the end so that their threads terminate
        self.plan, self.policy, self.log_from, self.abort = {}, None, None, True
        self.max_steps = 10 ** 9
        outcome["exceptions"] = list(outcome["exceptions"])
        for a in self.actors:
            if a.started and not a.done:
                for _ in range(5000):
                    if a.done:
                        break
                    if a.go.locked():
                        a.go.release()
                    self.arrived.acquire(timeout=0.05)
        return outcome


def switch_signature(s):
    return tuple(s.switches) + tuple(t[:2] for t in s.trace if t[0] == "timer-fire")


def preemption_sites(s):
    return sorted({sw[1][0] for sw in s.switches if sw[1]})
