"""Station factory: the same object graph as examples/*, on the simulated ether."""
from __future__ import annotations

from dataclasses import replace

from flexstack.geonet.gn_address import GNAddress, M, ST, MID
from flexstack.geonet.mib import MIB, GnSecurity, AreaForwardingAlgorithm, GnIsMobile
from flexstack.geonet.router import Router as GNRouter
from flexstack.geonet.position_vector import LongPositionVector, TST
from flexstack.btp.router import Router as BTPRouter

from .vclock import tst_of


def gn_addr(mid: bytes, st: int = 5, m: int = 0) -> GNAddress:
    # code 15 is taken by name: a tree that numbers the road side unit differently then shows on the wire, not as a harness error
    return GNAddress(m=M(m), st=ST.ROAD_SIDE_UNIT if st == 15 else ST(st), mid=MID(bytes(mid)))


def addr_dict(a: GNAddress) -> dict:
    return {"m": a.m.value, "st": a.st.value, "mid": a.mid.mid}


def pv_dict(pv) -> dict:
    """Repo LongPositionVector/ShortPositionVector -> reference dict (raw attribute values)."""
    d = {"addr": addr_dict(pv.gn_addr), "tst": pv.tst.msec, "lat": pv.latitude, "lon": pv.longitude}
    if hasattr(pv, "pai"):
        d.update(pai=int(pv.pai), s=pv.s, h=pv.h)
    return d


class Station:
    def __init__(self, ether, name, mid, lat=0, lon=0, st=5, m=0, mib_over=None, ports=(), sign=None, verify=None,
                 pai=True, s=0, h=0, clock=None, set_pv=True):
        self.name = name
        self.ether = ether
        self.addr = gn_addr(mid, st, m)
        over = dict(mib_over or {})
        over.setdefault("itsGnBeaconServiceRetransmitTimer", 0)
        self.mib = MIB(itsGnLocalGnAddr=self.addr, **over)
        self.router = GNRouter(self.mib, sign_service=sign, verify_service=verify)
        self.btp = BTPRouter(self.router)
        self.router.register_indication_callback(self._gn_indication)
        self.gn_ind = []       # (t, GNDataIndication)
        self.btp_ind = []      # (t, port the handler was registered for, BTPDataIndication)
        self.btp_errors = []
        self.clock = clock or ether.clock
        for p in ports:
            self.btp.register_indication_callback_btp(p, self._handler(p))
        self.btp.freeze_callbacks()
        # boundary recorder: exceptions that the router's own guard discards are still made visible to the
        # monitors (ether.errors), exactly as they were when they propagated to the receive loop
        self.rx_exceptions = []
        orig_pbh = self.router.process_basic_header

        def recording_pbh(packet, _orig=orig_pbh):
            try:
                return _orig(packet)
            except NotImplementedError:
                raise
            except Exception as e:  # noqa
                self.rx_exceptions.append(e)
                ether.errors.append((name, "<guarded>", bytes(packet), e))
                raise
        self.router.process_basic_header = recording_pbh
        self.ll = ether.attach(name, self.router.gn_data_indicate)
        self.router.link_layer = self.ll
        if set_pv:
            self.set_position(lat, lon, pai=pai, s=s, h=h)

    def now(self):
        return self.clock.now() if self.clock else 0.0

    def _handler(self, port):
        def cb(ind):
            self.btp_ind.append((self.now(), port, ind))
        return cb

    def _gn_indication(self, ind):
        self.gn_ind.append((self.now(), ind))
        self.btp.btp_data_indication(ind)

    def set_position(self, lat, lon, pai=True, s=0, h=0, t=None):
        """Install an ego position vector (raw 1/10 microdegree ints), timestamped now."""
        t = self.now() if t is None else t
        self.router.ego_position_vector = LongPositionVector(
            gn_addr=self.addr, tst=TST(msec=tst_of(t)), latitude=lat, longitude=lon, pai=pai, s=s, h=h)
        return self.router.ego_position_vector
