"""Shared result accumulator, evidence writer and known-finding classification.

Verdicts are three-valued (DESIGN.md 2.9):
  exit 0  held on everything observed (possibly with KNOWN-FINDING lines)
  exit 1  VIOLATION property=<id> replay=<path>   (a violation whose mechanism key is not listed)
  exit 2  INCONCLUSIVE (worker died / timed out / deciding monitor never evaluated)
"""
from __future__ import annotations

import hashlib
import json
import os
import time
from collections import Counter

from . import env

SIG_CAP = 400_000          # per shard cap on remembered case signatures
CASES_PER_KEY = 3          # witnesses kept per mechanism key
SAMPLES_CAP = 6


def h64(obj) -> int:
    """Stable 64-bit hash of a JSON-able / repr-able case signature."""
    if not isinstance(obj, (bytes, bytearray)):
        obj = repr(obj).encode()
    return int.from_bytes(hashlib.blake2b(obj, digest_size=8).digest(), "big")


def jsonable(o):
    if isinstance(o, (bytes, bytearray)):
        return {"hex": bytes(o).hex()}
    if isinstance(o, (set, frozenset)):
        return sorted(jsonable(x) for x in o)
    if isinstance(o, tuple):
        return [jsonable(x) for x in o]
    if isinstance(o, list):
        return [jsonable(x) for x in o]
    if isinstance(o, dict):
        return {str(k): jsonable(v) for k, v in o.items()}
    if isinstance(o, (int, float, str, bool)) or o is None:
        return o
    return repr(o)


class Result:
    """Per-shard accumulator.  Everything in it is measured by the run that fills it."""

    def __init__(self):
        self.evaluations = 0
        self.sigs: set[int] = set()
        self.sig_overflow = 0        # cases whose signature could not be remembered (cap)
        self.disjoint_distinct = 0   # distinct cases counted by construction (enumerations)
        self.counters: Counter = Counter()
        self.violations: dict[str, dict] = {}
        self.samples: list = []
        self.inconclusive: list[str] = []
        self.observed: dict = {}

    # -- cases ---------------------------------------------------------------------------
    def case(self, sig=None, nontrivial=True, n=1):
        """Record n evaluated cases; sig identifies the case for distinct counting."""
        self.evaluations += n
        if nontrivial and sig is not None:
            if len(self.sigs) < SIG_CAP:
                self.sigs.add(sig if isinstance(sig, int) else h64(sig))
            else:
                self.sig_overflow += 1

    def enumerated(self, n):
        """n cases that are pairwise distinct by construction (an enumeration range)."""
        self.evaluations += n
        self.disjoint_distinct += n

    def count(self, name, n=1):
        self.counters[name] += n

    def sample(self, s):
        if len(self.samples) < SAMPLES_CAP:
            self.samples.append(jsonable(s))

    def violation(self, key: str, desc: str, case):
        v = self.violations.setdefault(key, {"count": 0, "desc": desc, "cases": []})
        v["count"] += 1
        if len(v["cases"]) < CASES_PER_KEY:
            v["cases"].append(jsonable(case))

    def inconc(self, why: str):
        if why not in self.inconclusive:
            self.inconclusive.append(why)

    def observe_max(self, name, v):
        if v > self.observed.get(name, float("-inf")):
            self.observed[name] = v

    def observe_set(self, name, v, cap=64):
        s = self.observed.setdefault(name, [])
        if v not in s and len(s) < cap:
            s.append(v)

    # -- (de)serialisation -----------------------------------------------------------------
    def dump(self) -> dict:
        return {
            "evaluations": self.evaluations,
            "sigs": sorted(self.sigs),
            "sig_overflow": self.sig_overflow,
            "disjoint_distinct": self.disjoint_distinct,
            "counters": dict(self.counters),
            "violations": self.violations,
            "samples": self.samples,
            "inconclusive": self.inconclusive,
            "observed": jsonable(self.observed),
        }

    def merge_dump(self, d: dict):
        self.evaluations += d["evaluations"]
        self.sigs.update(d["sigs"])
        self.sig_overflow += d["sig_overflow"]
        self.disjoint_distinct += d["disjoint_distinct"]
        self.counters.update(d["counters"])
        for k, v in d["violations"].items():
            mine = self.violations.setdefault(k, {"count": 0, "desc": v["desc"], "cases": []})
            mine["count"] += v["count"]
            for c in v["cases"]:
                if len(mine["cases"]) < CASES_PER_KEY:
                    mine["cases"].append(c)
        for s in d["samples"]:
            if len(self.samples) < SAMPLES_CAP:
                self.samples.append(s)
        for w in d["inconclusive"]:
            self.inconc(w)
        for k, v in d["observed"].items():
            if isinstance(v, list):
                for x in v:
                    self.observe_set(k, x)
            elif isinstance(v, (int, float)):
                self.observe_max(k, v)
            else:
                self.observed[k] = v


# ---------------------------------------------------------------------------------------
# known findings
# ---------------------------------------------------------------------------------------

def load_findings(prop: str):
    path = os.path.join(env.VERIF_DIR, "known_findings.json")
    known, fixed = {}, {}
    if os.path.exists(path):
        with open(path) as f:
            data = json.load(f)
        for e in data.get("findings", []):
            if e.get("property") != prop:
                continue
            if e.get("status") == "fixed":
                fixed[e["key"]] = e
            else:
                known[e["key"]] = e
    return known, fixed


def write_replay(prop: str, key: str, v: dict) -> str:
    os.makedirs(env.REPLAY_DIR, exist_ok=True)
    name = f"{prop}-{hashlib.blake2b(key.encode(), digest_size=5).hexdigest()}.json"
    path = os.path.join(env.REPLAY_DIR, name)
    with open(path, "w") as f:
        json.dump({"property": prop, "key": key, "desc": v["desc"], "count": v["count"],
                   "cases": v["cases"]}, f, indent=1)
    return path


def finish(prop: str, mod, tier: str, seed: int, res: Result, wall: float, extra_cov=None) -> int:
    """Classify, write evidence, print verdict lines, return exit code."""
    known, _fixed = load_findings(prop)
    unlisted = {k: v for k, v in res.violations.items() if k not in known}
    listed = {k: v for k, v in res.violations.items() if k in known}

    for req in getattr(mod, "REQUIRED_COUNTERS", []):
        if res.counters.get(req, 0) <= 0:
            res.inconc(f"deciding counter '{req}' is zero: monitor never evaluated")
    distinct = len(res.sigs) + res.disjoint_distinct
    if res.evaluations == 0 or distinct < 2:
        res.inconc("fewer than 2 distinct non-trivial cases observed")

    coverage = {
        "evaluations": int(res.evaluations),
        "distinct_nontrivial": int(distinct),
        "rule": getattr(mod, "RULE", ""),
        "samples": res.samples,
        "counters": dict(sorted(res.counters.items())),
        "observed": res.observed,
        "signatures_not_remembered_over_cap": res.sig_overflow,
        "known_findings_reproduced": {k: v["count"] for k, v in listed.items()},
        "unlisted_violation_keys": {k: v["count"] for k, v in unlisted.items()},
        "inconclusive_reasons": res.inconclusive,
        "repo": env.REPO,
    }
    if getattr(mod, "EXHAUSTIVE", {}).get(tier):
        coverage["exhaustive"] = True
    if extra_cov:
        coverage.update(extra_cov)
    ev = {
        "property_id": prop,
        "tier": tier,
        "seed": int(seed),
        "level": getattr(mod, "LEVEL", "exploration"),
        "coverage": coverage,
        "assumptions": list(getattr(mod, "ASSUMPTIONS", [])),
        "wall_s": round(wall, 3),
        "violations": sum(v["count"] for v in unlisted.values()),
        "verdict": ("violated" if unlisted else "inconclusive" if res.inconclusive else "held"),
    }
    os.makedirs(env.EVIDENCE_DIR, exist_ok=True)
    with open(os.path.join(env.EVIDENCE_DIR, f"{prop}.json" + os.environ.get("VERIF_EVIDENCE_SUFFIX", "")), "w") as f:
        json.dump(ev, f, indent=1)

    if not os.environ.get("VERIF_EVIDENCE_SUFFIX"):
        import glob
        for old_replay in glob.glob(os.path.join(env.REPLAY_DIR, f"{prop}-*.json")):
            os.remove(old_replay)
    for k, v in sorted(listed.items()):
        print(f"KNOWN-FINDING: property={prop} {k} ({v['count']} occurrences this run) {known[k].get('description', '')[:160]}")
    code = 0
    if unlisted:
        for k, v in sorted(unlisted.items()):
            path = write_replay(prop, k, v)
            print(f"VIOLATION property={prop} replay={path}")
            print(f"  key={k} count={v['count']} :: {v['desc'][:300]}")
        code = 1
    elif res.inconclusive:
        for w in res.inconclusive:
            print(f"INCONCLUSIVE property={prop} {w}")
        code = 2
    print(f"[{prop}] tier={tier} seed={seed} evaluations={res.evaluations} distinct={distinct} "
          f"known={len(listed)} unlisted={len(unlisted)} wall={wall:.1f}s verdict={ev['verdict']}")
    return code


class Stopwatch:
    def __init__(self):
        self.t0 = time.monotonic()

    def s(self):
        return time.monotonic() - self.t0
