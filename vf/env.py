"""Environment: where the code under test lives, and making it importable.

The check processes import FlexStack from ``$VERIF_REPO/src`` (default /repo/src), i.e. from
the *current working tree*, in a fresh interpreter with byte-code writing disabled.  The
same switch lets the mutation self-test aim a check at a scratch copy.
"""
import os
import sys

VERIF_DIR = os.path.dirname(os.path.dirname(os.path.abspath(__file__)))
REPO = os.environ.get("VERIF_REPO", "/repo")
SRC = os.path.join(REPO, "src")
EVIDENCE_DIR = os.path.join(VERIF_DIR, "evidence")
REPLAY_DIR = os.path.join(EVIDENCE_DIR, "replay")
GUARD = "FLEXSTACK_VERIF"


def activate():
    """Put the tree under test first on sys.path and verify that is what gets imported."""
    os.environ[GUARD] = "1"
    if SRC in sys.path:
        sys.path.remove(SRC)
    sys.path.insert(0, SRC)
    if VERIF_DIR not in sys.path:
        sys.path.insert(1, VERIF_DIR)
    _memoise_asn1_compilation()
    import flexstack  # noqa
    got = os.path.realpath(os.path.dirname(flexstack.__file__))
    want = os.path.realpath(os.path.join(SRC, "flexstack"))
    if got != want:
        raise RuntimeError(f"flexstack imported from {got}, expected {want}")


def _memoise_asn1_compilation():
    """Every CAMCoder()/VAMCoder()/DENMCoder() recompiles its ASN.1 module (0.5-1.5 s).  The compiled specification is
    immutable, so the harness memoises asn1tools.compile_string per (text, codec): same objects, same behaviour, and
    thousands of station constructions per check become affordable."""
    try:
        import asn1tools
    except ImportError:
        return
    if getattr(asn1tools.compile_string, "_verif_memo", False):
        return
    real = asn1tools.compile_string
    cache = {}

    def compile_string(string, codec="ber", *a, **k):
        key = (hash(string), len(string), codec, a, tuple(sorted(k.items())))
        if key not in cache:
            cache[key] = real(string, codec, *a, **k)
        return cache[key]
    compile_string._verif_memo = True
    asn1tools.compile_string = compile_string
