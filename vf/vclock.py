"""Virtual time: one clock, all timers.  Verdicts are taken on virtual timestamps only.

``VClock.install()`` rebinds ``TimeService.time`` (every wall-clock read of the GN stack goes
through it) and the ``Timer`` names imported into the modules that arm timers to ``VTimer``,
a drop-in for ``threading.Timer`` (start/cancel/daemon/is_alive) that registers with the clock.
Timer callbacks run in the harness thread, to completion, in (timestamp, creation) order.
All of this is attribute rebinding from the harness: the repository is not edited.
"""
from __future__ import annotations

import heapq
import itertools

CURRENT: "VClock | None" = None

# 2024-03-01T00:00:00Z: an arbitrary "today"; TST = (t - ITS_EPOCH + 5) * 1000 mod 2^32
DEFAULT_T0 = 1709251200.0


class VTimer:
    _ids = itertools.count()

    def __init__(self, interval, function, args=None, kwargs=None):
        self.interval = interval
        self.function = function
        self.args = list(args) if args is not None else []
        self.kwargs = dict(kwargs) if kwargs is not None else {}
        self.daemon = True
        self.name = f"VTimer-{next(VTimer._ids)}"
        self.cancelled = False
        self.started = False
        self.fired = False
        self.when = None
        self.clock = None

    def start(self):
        if self.started:
            raise RuntimeError("threads can only be started once")
        self.started = True
        self.clock = CURRENT
        if self.clock is None:
            raise RuntimeError("VTimer started with no virtual clock installed")
        self.clock._arm(self)

    def cancel(self):
        self.cancelled = True
        if self.clock is not None:
            self.clock.log.append((self.clock.t, "cancel", self.name, getattr(self.function, "__name__", "?")))

    def is_alive(self):
        return self.started and not self.fired and not self.cancelled

    def join(self, timeout=None):
        return None


class VClock:
    def __init__(self, t0: float = DEFAULT_T0):
        self.t = float(t0)
        self.heap: list = []
        self.seq = itertools.count()
        self.log: list = []          # (t, "arm"/"fire"/"cancel", timer name, function name)
        self.fired = 0
        self.tie_order = None        # optional callable(list of due timers) -> ordering (C06/C15 permute ties)
        self._saved = []

    # -- time -------------------------------------------------------------------------------
    def now(self) -> float:
        return self.t

    def monotonic(self) -> float:
        return self.t

    def time(self) -> float:
        return self.t

    def sleep(self, dt):
        self.advance(max(0.0, dt))

    def _arm(self, timer: VTimer):
        timer.when = self.t + max(0.0, float(timer.interval))
        heapq.heappush(self.heap, (timer.when, next(self.seq), timer))
        self.log.append((self.t, "arm", timer.name, getattr(timer.function, "__name__", "?")))

    def pending(self):
        return [t for (_, _, t) in self.heap if not t.cancelled and not t.fired]

    def next_due(self):
        while self.heap and (self.heap[0][2].cancelled or self.heap[0][2].fired):
            heapq.heappop(self.heap)
        return self.heap[0][0] if self.heap else None

    def run_until(self, target: float, on_fire=None):
        """Advance to target, firing every due timer in order.  on_fire() is called after each."""
        while True:
            nd = self.next_due()
            if nd is None or nd > target:
                break
            when, _, timer = heapq.heappop(self.heap)
            self.t = max(self.t, when)
            timer.fired = True
            self.fired += 1
            self.log.append((self.t, "fire", timer.name, getattr(timer.function, "__name__", "?")))
            timer.function(*timer.args, **timer.kwargs)
            if on_fire:
                on_fire()
        self.t = max(self.t, target)

    def advance(self, dt: float, on_fire=None):
        self.run_until(self.t + dt, on_fire)

    def drain(self, limit_s: float = 3600.0, on_fire=None):
        """Run until no timers are pending (bounded by limit_s of virtual time)."""
        end = self.t + limit_s
        while True:
            nd = self.next_due()
            if nd is None or nd > end:
                return nd is None
            self.run_until(nd, on_fire)

    # -- installation -----------------------------------------------------------------------
    def install(self):
        global CURRENT
        CURRENT = self
        from flexstack.utils import time_service
        from flexstack.geonet import router as gn_router
        self._saved.append((time_service.TimeService, "time", time_service.TimeService.__dict__["time"]))
        time_service.TimeService.time = staticmethod(self.now)
        self._saved.append((gn_router, "Timer", gn_router.Timer))
        gn_router.Timer = VTimer
        return self

    def install_ldm(self):
        """Rebind the `time` module attribute of the LDM modules that read time.monotonic()/sleep() to this clock."""
        import types
        shim = types.SimpleNamespace(time=self.now, monotonic=self.monotonic, sleep=self.sleep)
        from flexstack.facilities.local_dynamic_map import ldm_maintenance_reactive, ldm_service_reactive, ldm_maintenance
        for mod in (ldm_maintenance_reactive, ldm_service_reactive, ldm_maintenance):
            self._saved.append((mod, "time", mod.time))
            mod.time = shim
        return self

    def uninstall(self):
        global CURRENT
        for obj, name, val in reversed(self._saved):
            setattr(obj, name, val)
        self._saved.clear()
        CURRENT = None


def tst_of(t_utc: float) -> int:
    """Reference TST (EN 302 636-4-1 9.5.2): TAI milliseconds since 2004-01-01 mod 2^32 (5 leap seconds since)."""
    return int(round((t_utc - 1072915200 + 5) * 1000)) % (1 << 32)
