"""EN 302 931 V1.0.0 geometric function F(x, y) for circle / rectangle / ellipse with azimuth rotation, on two
independent local projections (great-circle distance + initial bearing; equirectangular about the centre).

Conventions (EN 302 931 clause 4/5, EN 302 636-4-1 9.8.5): a = distance from the centre to the short side / length of
the semi-major axis (the x axis of the canonical form runs along it), b = distance to the long side / semi-minor axis,
angle = azimuth of that x axis measured clockwise from north, in degrees.
"""
from __future__ import annotations

import math

R_EARTH = 6371000.0
CIRCLE, RECT, ELLIPSE = 0, 1, 2


def norm_lon_deg(d):
    """Longitude difference normalised to (-180, 180]."""
    d = (d + 180.0) % 360.0 - 180.0
    return 180.0 if d == -180.0 else d


def offset_haversine(lat_c, lon_c, lat, lon):
    """(north, east) metres of P relative to C from great-circle distance and initial bearing."""
    p1, p2 = math.radians(lat_c), math.radians(lat)
    dl = math.radians(norm_lon_deg(lon - lon_c))
    sdp = math.sin((p2 - p1) / 2)
    sdl = math.sin(dl / 2)
    h = sdp * sdp + math.cos(p1) * math.cos(p2) * sdl * sdl
    d = 2 * R_EARTH * math.asin(min(1.0, math.sqrt(h)))
    y = math.sin(dl) * math.cos(p2)
    x = math.cos(p1) * math.sin(p2) - math.sin(p1) * math.cos(p2) * math.cos(dl)
    brg = math.atan2(y, x)
    return d * math.cos(brg), d * math.sin(brg)


def offset_equirect(lat_c, lon_c, lat, lon):
    """(north, east) metres with the east scale taken at the *centre* latitude."""
    n = R_EARTH * math.radians(lat - lat_c)
    e = R_EARTH * math.radians(norm_lon_deg(lon - lon_c)) * math.cos(math.radians(lat_c))
    return n, e


def to_area_frame(n, e, angle_deg):
    t = math.radians(angle_deg)
    x = n * math.cos(t) + e * math.sin(t)        # along the a axis
    y = -n * math.sin(t) + e * math.cos(t)       # along the b axis
    return x, y


def f_value(shape, a, b, x, y):
    if a <= 0 or (shape != CIRCLE and b <= 0):
        raise ZeroDivisionError("degenerate area")
    if shape == CIRCLE:
        return 1 - (x / a) ** 2 - (y / a) ** 2
    if shape == RECT:
        return min(1 - (x / a) ** 2, 1 - (y / b) ** 2)
    return 1 - (x / a) ** 2 - (y / b) ** 2


def destination(lat_c, lon_c, north, east):
    """Point reached from C going `north`, `east` metres (great-circle direct problem)."""
    d = math.hypot(north, east)
    if d == 0:
        return lat_c, lon_c
    brg = math.atan2(east, north)
    p1 = math.radians(lat_c)
    ad = d / R_EARTH
    p2 = math.asin(max(-1.0, min(1.0, math.sin(p1) * math.cos(ad) + math.cos(p1) * math.sin(ad) * math.cos(brg))))
    l2 = math.radians(lon_c) + math.atan2(math.sin(brg) * math.sin(ad) * math.cos(p1), math.cos(ad) - math.sin(p1) * math.sin(p2))
    lon = math.degrees(l2)
    lon = (lon + 180.0) % 360.0 - 180.0
    return math.degrees(p2), lon


def border_radius(shape, a, b, phi):
    """Distance from the centre to the border along direction phi (radians, in the area frame)."""
    c, s = abs(math.cos(phi)), abs(math.sin(phi))
    if shape == CIRCLE:
        return a
    if shape == RECT:
        return min(a / c if c > 1e-12 else float("inf"), b / s if s > 1e-12 else float("inf"))
    return a * b / math.sqrt((b * math.cos(phi)) ** 2 + (a * math.sin(phi)) ** 2)


def classify(shape, a, b, angle, lat_c, lon_c, lat, lon):
    """'in' / 'out' / 'band' for point P (degrees) w.r.t. the area, with the tolerance band of the property:
    max(1 m, 1 % of the semi-axis, disagreement of the two projections) around the border is not judged."""
    n1, e1 = offset_haversine(lat_c, lon_c, lat, lon)
    n2, e2 = offset_equirect(lat_c, lon_c, lat, lon)
    perr = math.hypot(n1 - n2, e1 - e2) + 0.05
    bb = a if shape == CIRCLE else b
    ta = max(1.0, 0.01 * a, perr)
    tb = max(1.0, 0.01 * bb, perr)
    verdicts = set()
    for (n, e) in ((n1, e1), (n2, e2)):
        x, y = to_area_frame(n, e, angle)
        a_in, b_in = a - ta, bb - tb
        inside_strict = a_in > 0 and b_in > 0 and f_value(shape, a_in, b_in, x, y) >= 0
        outside_strict = f_value(shape, a + ta, bb + tb, x, y) < 0
        verdicts.add("in" if inside_strict else "out" if outside_strict else "band")
    return verdicts.pop() if len(verdicts) == 1 else "band"


def area_m2(shape, a, b):
    if shape == CIRCLE:
        return math.pi * a * a
    if shape == RECT:
        return 4.0 * a * b
    return math.pi * a * b


def selfcheck():
    # worked examples: 100 m north of the centre of a 200 x 50 rectangle pointing north is inside, pointing east it is not
    lat, lon = destination(45.0, 7.0, 100.0, 0.0)
    assert classify(RECT, 200, 50, 0, 45.0, 7.0, lat, lon) == "in"
    assert classify(RECT, 200, 50, 90, 45.0, 7.0, lat, lon) == "out"
    assert classify(ELLIPSE, 200, 50, 0, 45.0, 7.0, lat, lon) == "in"
    assert classify(ELLIPSE, 200, 50, 90, 45.0, 7.0, lat, lon) == "out"
    assert classify(CIRCLE, 99, 0, 0, 45.0, 7.0, lat, lon) == "band"
    # 45 deg azimuth: a point north-east on the axis is inside, north-west is outside
    lat, lon = destination(-33.0, -70.0, 100.0, 100.0)
    assert classify(RECT, 200, 20, 45, -33.0, -70.0, lat, lon) == "in"
    lat, lon = destination(-33.0, -70.0, 100.0, -100.0)
    assert classify(RECT, 200, 20, 45, -33.0, -70.0, lat, lon) == "out"
    # antimeridian
    lat, lon = destination(10.0, 179.9995, 0.0, 200.0)
    assert lon < 0 and classify(CIRCLE, 300, 0, 0, 10.0, 179.9995, lat, lon) == "in"
    n, e = offset_haversine(10.0, 179.9995, lat, lon)
    assert abs(e - 200.0) < 0.5 and abs(n) < 0.5
    assert abs(border_radius(RECT, 200, 50, math.radians(90)) - 50) < 1e-9
    assert abs(border_radius(ELLIPSE, 200, 50, 0) - 200) < 1e-9
    return True


if __name__ == "__main__":
    print(selfcheck())
