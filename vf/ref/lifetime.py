"""EN 302 636-4-1 clause 9.6.4 lifetime field: LT = Multiplier(6 bit) x Base(2 bit: 50 ms, 1 s, 10 s, 100 s).

Reference quantiser: "largest representable value not exceeding the request", by brute force
over the 256 codes (sorted table + bisect).
"""
import bisect

BASE_MS = (50, 1000, 10000, 100000)

CODE_VALUE = {(m << 2) | b: m * BASE_MS[b] for m in range(64) for b in range(4)}
VALUES = sorted(set(CODE_VALUE.values()))          # representable lifetimes in ms
MAX_MS = VALUES[-1]                                 # 6 300 000


def decode(code: int) -> int:
    return (code >> 2) * BASE_MS[code & 3]


def best(request_ms: int) -> int:
    """Largest representable lifetime <= request_ms (0 if request < 50)."""
    if request_ms < 0:
        return 0
    i = bisect.bisect_right(VALUES, request_ms)
    return VALUES[i - 1]


def selfcheck():
    assert best(0) == 0 and best(49) == 0 and best(50) == 50 and best(99) == 50
    assert best(500) == 500 and best(999) == 950 and best(1500) == 1500 and best(3150) == 3150
    assert best(3199) == 3150 and best(4000) == 4000 and best(63999) == 63000 and best(64000) == 63000
    assert best(70000) == 70000 and best(10 ** 6) == 10 ** 6 and best(7 * 10 ** 6) == 6300000
    assert decode(0b11110001) == 60000
    return True


if __name__ == "__main__":
    print(selfcheck())
