"""Independent reference codec for EN 302 636-4-1 V1.4.1 clause 9 and EN 302 636-5-1 clause 7.

Written from the field tables of the standards with ``struct``/bit slicing; shares no code
with /repo.  Fields are plain dicts of ints (enumerations are their numeric wire values).

Bit numbering follows the standard: bit 0 is the most significant bit of a field.
"""
from __future__ import annotations

import struct


class WireError(Exception):
    pass


def _rng(name, v, lo, hi):
    if not isinstance(v, int) or isinstance(v, bool) and False:
        raise WireError(f"{name} not int: {v!r}")
    if v < lo or v > hi:
        raise WireError(f"{name}={v} outside [{lo},{hi}]")
    return v


def s32(u):
    return u - (1 << 32) if u & 0x80000000 else u


def u32(s):
    return s & 0xFFFFFFFF


# ---------------------------------------------------------------- GN_ADDR (9.3, fig. 3)
def enc_gn_addr(a) -> bytes:
    m = _rng("M", a["m"], 0, 1)
    st = _rng("ST", a["st"], 0, 31)
    mid = a["mid"]
    if len(mid) != 6:
        raise WireError("MID must be 6 octets")
    hi = (m << 15) | (st << 10) | _rng("addr.reserved", a.get("reserved", 0), 0, 1023)
    return struct.pack(">H", hi) + bytes(mid)


def dec_gn_addr(b: bytes):
    if len(b) != 8:
        raise WireError("GN_ADDR needs 8 octets")
    hi = struct.unpack(">H", b[:2])[0]
    return {"m": hi >> 15, "st": (hi >> 10) & 31, "reserved": hi & 1023, "mid": bytes(b[2:8])}


# ---------------------------------------------------------------- LPV / SPV (9.5.2, 9.5.3)
def enc_lpv(p) -> bytes:
    lat = _rng("lat", p["lat"], -(1 << 31), (1 << 31) - 1)
    lon = _rng("lon", p["lon"], -(1 << 31), (1 << 31) - 1)
    s = _rng("speed", p["s"], -(1 << 14), (1 << 14) - 1)
    h = _rng("heading", p["h"], 0, 0xFFFF)
    tst = _rng("tst", p["tst"], 0, 0xFFFFFFFF)
    pai = _rng("pai", int(p["pai"]), 0, 1)
    return enc_gn_addr(p["addr"]) + struct.pack(">IiiHH", tst, lat, lon, (pai << 15) | (s & 0x7FFF), h)


def dec_lpv(b: bytes):
    if len(b) != 24:
        raise WireError("LPV needs 24 octets")
    tst, lat, lon, ps, h = struct.unpack(">IiiHH", b[8:])
    s = ps & 0x7FFF
    if s & 0x4000:
        s -= 0x8000
    return {"addr": dec_gn_addr(b[:8]), "tst": tst, "lat": lat, "lon": lon, "pai": ps >> 15, "s": s, "h": h}


def enc_spv(p) -> bytes:
    lat = _rng("lat", p["lat"], -(1 << 31), (1 << 31) - 1)
    lon = _rng("lon", p["lon"], -(1 << 31), (1 << 31) - 1)
    return enc_gn_addr(p["addr"]) + struct.pack(">Iii", _rng("tst", p["tst"], 0, 0xFFFFFFFF), lat, lon)


def dec_spv(b: bytes):
    if len(b) != 20:
        raise WireError("SPV needs 20 octets")
    tst, lat, lon = struct.unpack(">Iii", b[8:])
    return {"addr": dec_gn_addr(b[:8]), "tst": tst, "lat": lat, "lon": lon}


# ---------------------------------------------------------------- Basic Header (9.6)
def enc_basic(h) -> bytes:
    v = _rng("version", h["version"], 0, 15)
    nh = _rng("nh", h["nh"], 0, 15)
    lt = (_rng("lt_mult", h["lt_mult"], 0, 63) << 2) | _rng("lt_base", h["lt_base"], 0, 3)
    return bytes([(v << 4) | nh, _rng("reserved", h.get("reserved", 0), 0, 255), lt, _rng("rhl", h["rhl"], 0, 255)])


def dec_basic(b: bytes):
    if len(b) != 4:
        raise WireError("basic header needs 4 octets")
    return {"version": b[0] >> 4, "nh": b[0] & 15, "reserved": b[1], "lt_mult": b[2] >> 2, "lt_base": b[2] & 3,
            "rhl": b[3]}


LT_BASE_MS = (50, 1000, 10000, 100000)


def lt_ms(mult, base):
    return mult * LT_BASE_MS[base]


# ---------------------------------------------------------------- Common Header (9.7)
HT_ANY, HT_BEACON, HT_GUC, HT_GAC, HT_GBC, HT_TSB, HT_LS = range(7)


def enc_tc(tc):
    return (_rng("scf", int(tc["scf"]), 0, 1) << 7) | (_rng("co", int(tc["co"]), 0, 1) << 6) | _rng("tcid", tc["id"], 0, 63)


def dec_tc(o):
    return {"scf": o >> 7, "co": (o >> 6) & 1, "id": o & 63}


def enc_common(h) -> bytes:
    nh = _rng("nh", h["nh"], 0, 15)
    o0 = (nh << 4) | _rng("reserved1", h.get("reserved1", 0), 0, 15)
    o1 = (_rng("ht", h["ht"], 0, 15) << 4) | _rng("hst", h["hst"], 0, 15)
    flags = (_rng("mobile", int(h["mobile"]), 0, 1) << 7) | _rng("flags_reserved", h.get("flags_reserved", 0), 0, 127)
    return bytes([o0, o1, enc_tc(h["tc"]), flags]) + struct.pack(">HBB", _rng("pl", h["pl"], 0, 65535),
                                                                  _rng("mhl", h["mhl"], 0, 255),
                                                                  _rng("reserved2", h.get("reserved2", 0), 0, 255))


def dec_common(b: bytes):
    if len(b) != 8:
        raise WireError("common header needs 8 octets")
    pl, mhl, r2 = struct.unpack(">HBB", b[4:])
    return {"nh": b[0] >> 4, "reserved1": b[0] & 15, "ht": b[1] >> 4, "hst": b[1] & 15, "tc": dec_tc(b[2]),
            "mobile": b[3] >> 7, "flags_reserved": b[3] & 127, "pl": pl, "mhl": mhl, "reserved2": r2}


# ---------------------------------------------------------------- extended headers (9.8)
def enc_area(a) -> bytes:
    return struct.pack(">iiHHH", _rng("area.lat", a["lat"], -(1 << 31), (1 << 31) - 1),
                       _rng("area.lon", a["lon"], -(1 << 31), (1 << 31) - 1),
                       _rng("a", a["a"], 0, 65535), _rng("b", a["b"], 0, 65535), _rng("angle", a["angle"], 0, 65535))


def dec_area(b):
    lat, lon, a, bb, ang = struct.unpack(">iiHHH", b)
    return {"lat": lat, "lon": lon, "a": a, "b": bb, "angle": ang}


def enc_ext(ht, hst, x) -> bytes:
    """Extended header for header type ht/hst; x holds sn, so_pv, and type specific fields."""
    if ht == HT_BEACON:
        return enc_lpv(x["so_pv"])
    if ht == HT_TSB and hst == 0:  # SHB: SO PV + 4 octets media dependent data
        return enc_lpv(x["so_pv"]) + bytes(x.get("mdd", b"\0\0\0\0"))
    head = struct.pack(">HH", _rng("sn", x["sn"], 0, 65535), _rng("ext.reserved", x.get("reserved", 0), 0, 65535))
    if ht == HT_TSB:
        return head + enc_lpv(x["so_pv"])
    if ht in (HT_GBC, HT_GAC):
        return head + enc_lpv(x["so_pv"]) + enc_area(x["area"]) + struct.pack(">H", _rng("ext.reserved2", x.get("reserved2", 0), 0, 65535))
    if ht == HT_GUC or (ht == HT_LS and hst == 1):
        return head + enc_lpv(x["so_pv"]) + enc_spv(x["de_pv"])
    if ht == HT_LS and hst == 0:
        return head + enc_lpv(x["so_pv"]) + enc_gn_addr(x["req_addr"])
    raise WireError(f"no extended header for ht={ht} hst={hst}")


EXT_LEN = {(HT_BEACON, None): 24, (HT_TSB, 0): 28, (HT_TSB, 1): 28, (HT_GBC, None): 44, (HT_GAC, None): 44,
           (HT_GUC, None): 48, (HT_LS, 0): 36, (HT_LS, 1): 48}


def ext_len(ht, hst):
    for k in ((ht, hst), (ht, None)):
        if k in EXT_LEN:
            return EXT_LEN[k]
    raise WireError(f"unknown header type {ht}/{hst}")


def dec_ext(ht, hst, b: bytes):
    n = ext_len(ht, hst)
    if len(b) < n:
        raise WireError("extended header truncated")
    b = b[:n]
    if ht == HT_BEACON:
        return {"so_pv": dec_lpv(b)}
    if ht == HT_TSB and hst == 0:
        return {"so_pv": dec_lpv(b[:24]), "mdd": bytes(b[24:28])}
    sn, res = struct.unpack(">HH", b[:4])
    x = {"sn": sn, "reserved": res, "so_pv": dec_lpv(b[4:28])}
    if ht == HT_TSB:
        return x
    if ht in (HT_GBC, HT_GAC):
        x["area"] = dec_area(b[28:42])
        x["reserved2"] = struct.unpack(">H", b[42:44])[0]
        return x
    if ht == HT_GUC or (ht == HT_LS and hst == 1):
        x["de_pv"] = dec_spv(b[28:48])
        return x
    if ht == HT_LS and hst == 0:
        x["req_addr"] = dec_gn_addr(b[28:36])
        return x
    raise WireError(f"no extended header for ht={ht} hst={hst}")


# ---------------------------------------------------------------- BTP (EN 302 636-5-1 cl. 7)
def enc_btp_a(dport, sport):
    return struct.pack(">HH", _rng("dport", dport, 0, 65535), _rng("sport", sport, 0, 65535))


def enc_btp_b(dport, info):
    return struct.pack(">HH", _rng("dport", dport, 0, 65535), _rng("dport_info", info, 0, 65535))


def dec_btp(b):
    if len(b) < 4:
        raise WireError("BTP header truncated")
    return struct.unpack(">HH", b[:4])


# ---------------------------------------------------------------- whole packets
def enc_packet(basic, common, ext, payload: bytes = b"") -> bytes:
    return enc_basic(basic) + enc_common(common) + enc_ext(common["ht"], common["hst"], ext) + payload


def dec_packet(b: bytes):
    """Parse an unsecured GN packet.  Returns dict(basic, common, ext, payload)."""
    if len(b) < 12:
        raise WireError("packet shorter than basic+common header")
    basic = dec_basic(b[:4])
    common = dec_common(b[4:12])
    n = ext_len(common["ht"], common["hst"])
    ext = dec_ext(common["ht"], common["hst"], b[12:12 + n])
    return {"basic": basic, "common": common, "ext": ext, "payload": bytes(b[12 + n:])}


def selfcheck():
    a = {"m": 0, "st": 5, "mid": bytes.fromhex("aabbccddeeff")}
    assert enc_gn_addr(a) == bytes.fromhex("1400aabbccddeeff")
    pv = {"addr": a, "tst": 0x01020304, "lat": -1, "lon": -(1 << 31), "pai": 1, "s": -1, "h": 3599}
    e = enc_lpv(pv)
    assert e[8:] == bytes.fromhex("01020304" "ffffffff" "80000000" "ffff" "0e0f"), e.hex()
    d = dec_lpv(e)
    assert d == {**pv, "addr": {**a, "reserved": 0}}, d
    bh = {"version": 1, "nh": 1, "lt_mult": 60, "lt_base": 1, "rhl": 10}
    assert enc_basic(bh) == bytes([0x11, 0, 0xF1, 10])
    ch = {"nh": 2, "ht": HT_GBC, "hst": 0, "tc": {"scf": 0, "co": 0, "id": 2}, "mobile": 1, "pl": 7, "mhl": 10}
    assert enc_common(ch) == bytes([0x20, 0x40, 0x02, 0x80, 0, 7, 10, 0])
    x = {"sn": 513, "so_pv": pv, "area": {"lat": 5, "lon": -5, "a": 100, "b": 50, "angle": 90}}
    p = enc_packet(bh, ch, x, b"payload")
    q = dec_packet(p)
    assert q["payload"] == b"payload" and q["ext"]["area"]["lon"] == -5 and q["ext"]["sn"] == 513
    assert len(enc_ext(HT_GUC, 0, {"sn": 1, "so_pv": pv, "de_pv": {"addr": a, "tst": 1, "lat": 2, "lon": 3}})) == 48
    assert len(enc_ext(HT_LS, 0, {"sn": 1, "so_pv": pv, "req_addr": a})) == 36
    return True


if __name__ == "__main__":
    print(selfcheck())
