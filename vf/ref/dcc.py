"""Reference models for ETSI TS 102 687 V1.2.1: reactive state machine (5.3, Annex A), adaptive
LIMERIC step (5.4, eq. 1-6) and gate keeper (Annex B, eq. B.1/B.2).

The Annex A rows are held as data.  The standard's text is not available offline in this
sandbox; the rows below are this oracle's transcription (they satisfy rate x T_off = 1 s in every
row, which is checked independently of the numbers).  The adaptive step and the gate are computed
in exact rational arithmetic from the float inputs.
"""
from __future__ import annotations

import bisect
from fractions import Fraction as Fr

# (upper CBR bounds of Relaxed, Active1, Active2, Active3), rows (rate Hz, T_off ms)
TABLES = {
    "A1": {"bounds": (0.30, 0.40, 0.50, 0.60), "rows": ((10.0, 100.0), (5.0, 200.0), (2.5, 400.0), (2.0, 500.0), (1.0, 1000.0))},
    "A2": {"bounds": (0.30, 0.40, 0.50, 0.65), "rows": ((20.0, 50.0), (10.0, 100.0), (5.0, 200.0), (4.0, 250.0), (1.0, 1000.0))},
}


def table_for(t_on_max_us: int) -> str:
    return "A2" if t_on_max_us <= 500 else "A1"


def target_state(table: str, cbr: float) -> int:
    return bisect.bisect_right(TABLES[table]["bounds"], cbr)


def reactive_step(table: str, state: int, cbr: float):
    tgt = target_state(table, cbr)
    if tgt > state:
        state += 1
    elif tgt < state:
        state -= 1
    rate, toff = TABLES[table]["rows"][state]
    return state, rate, toff


DEFAULTS = dict(alpha=0.016, beta=0.0012, cbr_target=0.68, delta_max=0.03, delta_min=0.0006, delta_up_max=0.0005,
                delta_down_max=-0.00025)


def adaptive_step(p: dict, cbr_its_s: float, delta: float, cbr0: float, cbr1: float):
    """One evaluation from the given previous state, exact.  Returns (cbr_its_s', delta') as Fractions."""
    c = Fr(1, 2) * Fr(cbr_its_s) + Fr(1, 4) * (Fr(cbr0) + Fr(cbr1))          # eq. 1
    diff = Fr(p["cbr_target"]) - c
    if diff > 0:
        off = min(Fr(p["beta"]) * diff, Fr(p["delta_up_max"]))                  # eq. 2
    else:
        off = max(Fr(p["beta"]) * diff, Fr(p["delta_down_max"]))                # eq. 3
    d = (1 - Fr(p["alpha"])) * Fr(delta) + off                                  # eq. 4
    if d > Fr(p["delta_max"]):                                                  # eq. 5
        d = Fr(p["delta_max"])
    if d < Fr(p["delta_min"]):                                                  # eq. 6
        d = Fr(p["delta_min"])
    return c, d


class Gate:
    """Annex B gate keeper in exact arithmetic."""
    MIN = Fr(25, 1000)
    MAX = Fr(1)

    def __init__(self, delta: float):
        self.delta = Fr(delta)
        self.t_pg = None
        self.t_go = None

    def is_open(self, t) -> bool:
        return self.t_go is None or Fr(t) >= self.t_go

    def margin(self, t):
        """Distance of t from the opening instant (None when the gate never closed)."""
        return None if self.t_go is None else abs(Fr(t) - self.t_go)

    def admit(self, t, t_on) -> bool:
        if not self.is_open(t):
            return False
        self.t_pg = Fr(t)
        self.t_go = self.t_pg + min(max(Fr(t_on) / self.delta, self.MIN), self.MAX)          # B.1
        return True

    def update_delta(self, t, delta_new):
        old = self.delta
        self.delta = Fr(delta_new)
        if self.t_go is None or self.is_open(t):
            return
        self.t_go = self.t_pg + min(max(old / self.delta * (self.t_go - self.t_pg), self.MIN), self.MAX)   # B.2


def selfcheck():
    for name, t in TABLES.items():
        for rate, toff in t["rows"]:
            assert abs(rate * toff - 1000.0) < 1e-9
        assert list(t["bounds"]) == sorted(t["bounds"])
    assert target_state("A1", 0.0) == 0 and target_state("A1", 0.3) == 1 and target_state("A1", 0.2999999) == 0
    assert target_state("A1", 1.0) == 4 and target_state("A2", 0.62) == 3 and target_state("A1", 0.62) == 4
    s = 0
    for _ in range(4):
        s, r, toff = reactive_step("A1", s, 0.9)
    assert (s, r, toff) == (4, 1.0, 1000.0)
    c, d = adaptive_step(DEFAULTS, 0.0, 0.0006, 0.5, 0.5)
    assert c == Fr(1, 4) and abs(float(d) - ((1 - 0.016) * 0.0006 + 0.0005)) < 1e-15
    g = Gate(0.01)
    assert g.admit(0.0, 0.001) and not g.is_open(0.05) and g.is_open(0.1000001)
    g.update_delta(0.05, 0.02)
    assert g.t_go == Fr(0.01) / Fr(0.02) * (Fr(0.001) / Fr(0.01))
    return True


if __name__ == "__main__":
    print(selfcheck())
