"""Simulated ether: the "bytes passed to LinkLayer.send()" observation point.

Every send() is appended to the wire log *before* delivery; deliveries are queued and drained
FIFO by the harness (breadth first: one ether round = everything that was queued when the
round started).  Exceptions escaping a station's receive callback are caught by the ether and
recorded with the frame -- they are exactly what the real receive loop would have seen.
"""
from __future__ import annotations

from collections import deque

from flexstack.linklayer.link_layer import LinkLayer
from flexstack.linklayer.exceptions import PacketTooLongException, SendingException

MTU = 1500
ETH_HDR = 14


class SimLinkLayer(LinkLayer):
    def __init__(self, ether: "Ether", name: str, receive_callback):
        super().__init__(receive_callback)
        self.ether = ether
        self.name = name
        self.fail_next = None     # None | "too_long" | "sending"  (fault injection)
        self.sent = []            # (t, bytes)

    def send(self, packet: bytes) -> None:
        if self.fail_next == "sending":
            self.fail_next = None
            raise SendingException("injected")
        if len(packet) + ETH_HDR > MTU or self.fail_next == "too_long":
            self.fail_next = None
            raise PacketTooLongException("Packet too long")
        self.ether.transmit(self.name, bytes(packet))


class Ether:
    def __init__(self, clock=None):
        self.clock = clock
        self.nodes: dict[str, SimLinkLayer] = {}
        self.links: set[frozenset] = set()
        self.full_mesh = True
        self.wire: list = []          # (seq, t, sender, bytes)
        self.queue: deque = deque()   # (seq, sender, receiver, bytes)
        self.rx_log: list = []        # (seq, receiver, exception or None)
        self.errors: list = []        # (receiver, sender, bytes, exception)
        self.filter = None            # optional callable(sender, receiver, bytes) -> list[bytes] (drop/dup/corrupt)
        self.rounds = 0
        self.on_rx = None             # optional callable(receiver_name, packet) called just before each delivery

    def attach(self, name: str, receive_callback) -> SimLinkLayer:
        ll = SimLinkLayer(self, name, receive_callback)
        self.nodes[name] = ll
        return ll

    def connect(self, a: str, b: str):
        self.full_mesh = False
        self.links.add(frozenset((a, b)))

    def neighbours(self, name: str):
        if self.full_mesh:
            return [n for n in self.nodes if n != name]
        return [n for n in self.nodes if n != name and frozenset((n, name)) in self.links]

    def now(self):
        return self.clock.now() if self.clock else 0.0

    def transmit(self, sender: str, packet: bytes):
        seq = len(self.wire)
        self.wire.append((seq, self.now(), sender, packet))
        for rcv in self.neighbours(sender):
            frames = [packet] if self.filter is None else self.filter(sender, rcv, packet)
            for f in frames:
                self.queue.append((seq, sender, rcv, f))

    def inject(self, receiver: str, packet: bytes, sender: str = "<inject>"):
        """Deliver a frame from outside (an attacker / a scripted remote station)."""
        self.queue.append((-1, sender, receiver, bytes(packet)))

    def step(self) -> bool:
        if not self.queue:
            return False
        seq, sender, rcv, pkt = self.queue.popleft()
        err = None
        if self.on_rx:
            self.on_rx(rcv, pkt)          # before processing: what the station is about to receive
        try:
            self.nodes[rcv].receive_callback(pkt)
        except BaseException as e:  # noqa  recorded: what the real receive loop would see
            if isinstance(e, (KeyboardInterrupt, SystemExit)):
                raise
            err = e
            self.errors.append((rcv, sender, pkt, e))
        self.rx_log.append((seq, rcv, err))
        return True

    def drain(self, max_rounds: int = 10_000) -> int:
        """Deliver until quiet.  Returns the number of ether rounds used (-1 if the bound was hit)."""
        rounds = 0
        while self.queue:
            if rounds >= max_rounds:
                return -1
            for _ in range(len(self.queue)):
                self.step()
            rounds += 1
        self.rounds += rounds
        return rounds
