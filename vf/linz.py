"""Small linearizability checker (Wing & Gong search with memoisation) for short histories.

ops  : list of dicts with integer "call" and "ret" (ret None = still open at the end of the history: may take effect
       at any time after call, or never)
step : step(state, op) -> iterable of successor states that are consistent with the response recorded in op
       (empty = the op cannot be linearised in this state).  States must be hashable.
Returns (True, order) or (False, longest linearised prefix found) -- the order lists indices into ops.
"""
from __future__ import annotations


def check(ops, init, step, budget=200_000):
    n = len(ops)
    if n == 0:
        return True, []
    INF = float("inf")
    rets = [o["ret"] if o.get("ret") is not None else INF for o in ops]
    calls = [o["call"] for o in ops]
    full = (1 << n) - 1
    optional = [o.get("ret") is None for o in ops]
    seen = set()
    best = []
    work = [0]

    def dfs(done, state, order):
        nonlocal best
        if len(order) > len(best):
            best = list(order)
        # finished when every completed op is linearised (open ops may never take effect)
        if all((done >> i) & 1 or optional[i] for i in range(n)):
            return True
        key = (done, state)
        if key in seen:
            return False
        seen.add(key)
        work[0] += 1
        if work[0] > budget:
            raise TimeoutError("linearizability search budget exhausted")
        # an op may go next only if no other pending op returned before it was called
        min_ret = min((rets[i] for i in range(n) if not (done >> i) & 1), default=INF)
        for i in range(n):
            if (done >> i) & 1 or calls[i] > min_ret:
                continue
            for nxt in step(state, ops[i]):
                order.append(i)
                if dfs(done | (1 << i), nxt, order):
                    return True
                order.pop()
        return False

    order = []
    ok = dfs(0, init, order)
    return (True, list(order)) if ok else (False, best)


def selfcheck():
    # register: w(1) || r->1 ok ; r->2 not
    def step(s, o):
        if o["k"] == "w":
            return [o["v"]]
        return [s] if o["v"] == s else []
    ok, _ = check([{"k": "w", "v": 1, "call": 0, "ret": 3}, {"k": "r", "v": 1, "call": 1, "ret": 2}], 0, step)
    assert ok
    ok, _ = check([{"k": "w", "v": 1, "call": 0, "ret": 1}, {"k": "r", "v": 0, "call": 2, "ret": 3}], 0, step)
    assert not ok
    ok, _ = check([{"k": "w", "v": 1, "call": 0, "ret": 5}, {"k": "r", "v": 1, "call": 1, "ret": 2}, {"k": "r", "v": 0, "call": 3, "ret": 4}], 0, step)
    assert not ok          # new-old inversion
    ok, _ = check([{"k": "w", "v": 1, "call": 0, "ret": None}, {"k": "r", "v": 0, "call": 3, "ret": 4}], 0, step)
    assert ok              # open write never took effect
    return True
