"""LDM harness: builds the same object graph as LDMFactory.create_ldm (with a TinyDB file under a caller-supplied
temp dir instead of the current directory), message dictionary generators and request helpers."""
from __future__ import annotations

from flexstack.facilities.local_dynamic_map.ldm_classes import (
    AccessPermission, AddDataProviderReq, DeleteDataProviderReq, DeregisterDataConsumerReq, DeregisterDataProviderReq,
    Filter, FilterStatement, ComparisonOperators, LogicalOperators, GeometricArea, Circle, Location, OrderTupleValue,
    OrderingDirection, RegisterDataConsumerReq, RegisterDataProviderReq, RequestDataObjectsReq, SubscribeDataobjectsReq,
    TimestampIts, TimeValidity, UpdateDataProviderReq, UnsubscribeDataConsumerReq)
from flexstack.facilities.local_dynamic_map.ldm_facility import LDMFacility
from flexstack.facilities.local_dynamic_map.ldm_maintenance_reactive import LDMMaintenanceReactive
from flexstack.facilities.local_dynamic_map.ldm_maintenance import LDMMaintenance
from flexstack.facilities.local_dynamic_map.ldm_service_reactive import LDMServiceReactive
from flexstack.facilities.local_dynamic_map.ldm_service import LDMService
from flexstack.facilities.local_dynamic_map.dictionary_database import DictionaryDataBase

ITS_EPOCH = 1072915200
TYPE_KEY = {1: "denm", 2: "cam", 16: "vam", 3: "poi", 14: "cpm"}
LDM_LAT, LDM_LON, LDM_ALT = 415000000, 21000000, 12000


def its_now(clock) -> int:
    return int((int(clock.now()) - ITS_EPOCH + 5) * 1000)


def make_ldm(db="Dictionary", tmpdir=None, service="Reactive", maintenance="Reactive", name="ldm.json"):
    if db == "Dictionary":
        database = DictionaryDataBase()
    else:
        from flexstack.facilities.local_dynamic_map.tinydb_database import TinyDB
        database = TinyDB(database_name=name, database_path=tmpdir)
    loc = Location.initializer(latitude=LDM_LAT, longitude=LDM_LON, altitude_value=LDM_ALT)
    maint = (LDMMaintenanceReactive if maintenance == "Reactive" else LDMMaintenance)(loc, database)
    serv = (LDMServiceReactive if service == "Reactive" else LDMService)(maint)
    return LDMFacility(maint, serv)


def location(lat, lon, alt=LDM_ALT + 500):
    return Location.initializer(latitude=lat, longitude=lon, altitude_value=alt)


def area():
    return GeometricArea(circle=Circle(radius=5000), rectangle=None, ellipse=None)


# ---------------------------------------------------------------------------------- message dictionaries
def cam(rng, station=None, with_lf=None, with_special=None):
    d = {"header": {"protocolVersion": 2, "messageId": 2, "stationId": station if station is not None else rng.randrange(1, 50)},
         "cam": {"generationDeltaTime": rng.randrange(65536),
                 "camParameters": {
                     "basicContainer": {"stationType": rng.choice((1, 5, 5, 6, 15)),
                                        "referencePosition": {"latitude": LDM_LAT + rng.randrange(-50000, 50000), "longitude": LDM_LON + rng.randrange(-50000, 50000),
                                                              "altitude": {"altitudeValue": rng.choice((-2, -1, -1, 0, rng.randrange(0, 5000), rng.randrange(-100, 5000))), "altitudeConfidence": "unavailable"}}},
                     "highFrequencyContainer": ["basicVehicleContainerHighFrequency",
                                                {"heading": {"headingValue": rng.randrange(3601), "headingConfidence": 127},
                                                 "speed": {"speedValue": rng.choice((0, 0, 1, 500, 1389, 16383, rng.randrange(16383))), "speedConfidence": 127},
                                                 "driveDirection": rng.choice(("forward", "backward", "unavailable")),
                                                 "vehicleLength": {"vehicleLengthValue": rng.randrange(1, 1023)}}]}}}
    if with_lf if with_lf is not None else rng.random() < 0.5:
        d["cam"]["camParameters"]["lowFrequencyContainer"] = ["basicVehicleContainerLowFrequency",
                                                              {"vehicleRole": rng.choice(("default", "emergency", "taxi")),
                                                               "exteriorLights": rng.randrange(256)}]
    if with_special if with_special is not None else rng.random() < 0.2:
        d["cam"]["camParameters"]["specialVehicleContainer"] = {"lightBarSirenInUse": rng.randrange(4)}
    return d


def denm(rng, station=None):
    d = {"header": {"protocolVersion": 2, "messageId": 1, "stationId": station if station is not None else rng.randrange(1, 50)},
         "denm": {"management": {"actionId": {"originatingStationId": rng.randrange(1, 50), "sequenceNumber": rng.randrange(100)},
                                 "detectionTime": rng.randrange(10 ** 9), "referenceTime": rng.randrange(10 ** 9),
                                 "eventPosition": {"latitude": LDM_LAT + rng.randrange(-50000, 50000), "longitude": LDM_LON + rng.randrange(-50000, 50000)},
                                 "stationType": rng.choice((5, 10, 15))}}}
    if rng.random() < 0.6:
        d["denm"]["situation"] = {"informationQuality": rng.randrange(8), "eventType": {"ccAndScc": rng.choice(("collisionRisk97", "emergencyVehicleApproaching95"))}}
    if rng.random() < 0.3:
        d["denm"]["management"]["validityDuration"] = rng.randrange(86400)
    return d


def vam(rng, station=None):
    d = {"header": {"protocolVersion": 3, "messageId": 16, "stationId": station if station is not None else rng.randrange(1, 50)},
         "vam": {"generationDeltaTime": rng.randrange(65536),
                 "vamParameters": {"basicContainer": {"stationType": rng.choice((1, 2)),
                                                      "referencePosition": {"latitude": LDM_LAT + rng.randrange(-50000, 50000), "longitude": LDM_LON + rng.randrange(-50000, 50000)}},
                                   "vruHighFrequencyContainer": {"speed": {"speedValue": rng.randrange(0, 3000), "speedConfidence": 127},
                                                                 "heading": {"value": rng.randrange(3601), "confidence": 127}}}}}
    if rng.random() < 0.4:
        d["vam"]["vamParameters"]["vruLowFrequencyContainer"] = {"profileAndSubprofile": rng.choice(("pedestrian", "bicyclist")), "sizeClass": rng.choice(("low", "medium", "high"))}
    if rng.random() < 0.2:
        d["vam"]["vamParameters"]["vruClusterInformationContainer"] = {"vruClusterInformation": {"clusterId": rng.randrange(1, 256), "clusterCardinalitySize": rng.randrange(1, 20)}}
    return d


def other(rng, key):
    return {"header": {"protocolVersion": 2, "messageId": 99, "stationId": rng.randrange(1, 50)}, key: {"value": rng.randrange(1000), "label": rng.choice(("a", "bb", "abc"))}}


def message(rng, type_id, station=None):
    if type_id == 2:
        return cam(rng, station)
    if type_id == 1:
        return denm(rng, station)
    if type_id == 16:
        return vam(rng, station)
    return other(rng, TYPE_KEY[type_id])


def type_of(data_object: dict):
    """Independent type detection: the first key that names a message type."""
    inv = {v: k for k, v in {1: "denm", 2: "cam", 3: "poi", 4: "spatem", 5: "mapem", 6: "ivim", 7: "ev-rsr", 8: "tistpgtransaction", 9: "srem", 10: "ssem",
                              11: "evcsn", 12: "saem", 13: "rtcmem", 14: "cpm", 15: "imzm", 16: "vam", 17: "dsm", 18: "pcim", 19: "pcvm", 20: "payload", 21: "pam"}.items()}
    for k in data_object:
        if k in inv:
            return inv[k]
    return None
