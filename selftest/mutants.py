"""Realistic source mutants (each still passes the repository's own tests for the touched module -- that is the
point) used to confirm that the monitors fire.  file is relative to /repo/src."""

MUTANTS = []


def M(id, prop, file, old, new, what, count=1, tier="quick"):
    MUTANTS.append(dict(id=id, prop=prop, file=file, old=old, new=new, what=what, count=count, tier=tier))


# ---------------------------------------------------------------- C19
M("c19-gate-min", "C19", "flexstack/management/dcc_adaptive.py",
  "GATE_OPEN_MIN_INTERVAL_S: float = 0.025", "GATE_OPEN_MIN_INTERVAL_S: float = 0.020", "gate minimum interval 20 ms")
M("c19-b2-inverted", "C19", "flexstack/management/dcc_adaptive.py",
  "new_interval = (delta_old / delta_new) * old_interval", "new_interval = (delta_new / delta_old) * old_interval", "B.2 ratio inverted")
M("c19-clamp-order", "C19", "flexstack/management/dcc_adaptive.py",
  "        if self.delta > p.delta_max:\n            self.delta = p.delta_max\n", "", "delta_max clamp dropped")
M("c19-reactive-band", "C19", "flexstack/management/dcc_reactive.py",
  "if cfg.cbr_min <= cbr < cfg.cbr_max:", "if cfg.cbr_min < cbr <= cfg.cbr_max:", "band edges moved to the other side")
M("c19-reactive-jump", "C19", "flexstack/management/dcc_reactive.py",
  "        elif target_idx < current_idx:\n            current_idx -= 1", "        elif target_idx < current_idx:\n            current_idx = target_idx",
  "relaxation jumps straight to the target state")
M("c19-offset-sign", "C19", "flexstack/management/dcc_adaptive.py",
  "delta_offset = max(p.beta * diff, p.delta_down_max)", "delta_offset = max(p.beta * diff, -p.delta_up_max)", "wrong clamp used for negative offset")

# ---------------------------------------------------------------- C20
M("c20-shb-rhl", "C20", "flexstack/geonet/router.py",
  "            self.mib, request.max_packet_lifetime, 1)\n        common_header = CommonHeader.initialize_with_request(\n            request, self.mib)\n        long_position_vector",
  "            self.mib, request.max_packet_lifetime, max(1, request.max_hop_limit))\n        common_header = CommonHeader.initialize_with_request(\n            request, self.mib)\n        long_position_vector",
  "SHB RHL taken from the request")
M("c20-lt-round-up", "C20", "flexstack/geonet/basic_header.py",
  "candidate_multiplier = min(int(value // unit), 63)", "candidate_multiplier = min(int(round(value / unit)), 63)", "lifetime rounded to nearest (may exceed request)")
M("c20-hop-default", "C20", "flexstack/geonet/router.py",
  "hop_limit = self.mib.itsGnDefaultHopLimit if request.max_hop_limit <= 1 else request.max_hop_limit\n        basic_header = BasicHeader.initialize_with_mib_request_and_rhl(\n            self.mib, request.max_packet_lifetime, hop_limit)\n        # Step 1b",
  "hop_limit = self.mib.itsGnDefaultHopLimit if request.max_hop_limit < 1 else request.max_hop_limit\n        basic_header = BasicHeader.initialize_with_mib_request_and_rhl(\n            self.mib, request.max_packet_lifetime, hop_limit)\n        # Step 1b",
  "GUC: requested hop limit 1 used instead of the MIB default")
M("c20-rhl-check", "C20", "flexstack/geonet/router.py",
  "if basic_header.rhl > common_header.mhl:", "if basic_header.rhl > common_header.mhl + 1:", "RHL > MHL check off by one")
M("c20-mib-lifetime", "C20", "flexstack/geonet/basic_header.py",
  "            lt = LT().set_value_in_seconds(mib.itsGnDefaultPacketLifetime)\n        return cls(\n            version=1,\n            nh=BasicNH.COMMON_HEADER,\n            reserved=0,\n            lt=lt,\n            rhl=rhl,\n        )\n\n    def set_version",
  "            lt = LT().set_value_in_seconds(mib.itsGnMaxPacketLifetime)\n        return cls(\n            version=1,\n            nh=BasicNH.COMMON_HEADER,\n            reserved=0,\n            lt=lt,\n            rhl=rhl,\n        )\n\n    def set_version",
  "default lifetime taken from itsGnMaxPacketLifetime")

# ---------------------------------------------------------------- C02
M("c02-tc-bits", "C02", "flexstack/geonet/service_access_point.py",
  "return (self.scf << 7) | (self.channel_offload << 6) | self.tc_id", "return (self.scf << 6) | (self.channel_offload << 7) | self.tc_id", "SCF and channel-offload bits swapped on encode")
M("c02-pl", "C02", "flexstack/btp/router.py", "                length=len(data),\n                max_hop_limit=request.gn_max_hop_limit,\n                max_packet_lifetime=request.gn_max_packet_lifetime,\n                destination=request.gn_destination_address,\n            )\n            self.logging.debug(\n                \"Sending BTP Data Request",
  "                length=len(request.data),\n                max_hop_limit=request.gn_max_hop_limit,\n                max_packet_lifetime=request.gn_max_packet_lifetime,\n                destination=request.gn_destination_address,\n            )\n            self.logging.debug(\n                \"Sending BTP Data Request",
  "BTP-B: payload length excludes the BTP header")
M("c02-spv-lon", "C02", "flexstack/geonet/position_vector.py",
  "        longitude = _to_signed(data_int, 32)", "        longitude = data_int & 0xFFFFFFFF", "SPV longitude not sign-extended on decode")
M("c02-guc-depv", "C02", "flexstack/geonet/router.py",
  "            tst=de_lpv.tst,\n            latitude=de_lpv.latitude,\n            longitude=de_lpv.longitude,\n        )\n        # Step 1c",
  "            tst=self.ego_position_vector.tst,\n            latitude=de_lpv.latitude,\n            longitude=de_lpv.longitude,\n        )\n        # Step 1c",
  "GUC DE PV timestamp taken from ego PV")
M("c02-sn-wrap", "C02", "flexstack/geonet/router.py",
  "self.sequence_number = (self.sequence_number + 1) % (2**16 - 1)", "self.sequence_number = (self.sequence_number + 1) % (2**16)", "SN modulus 2^16 instead of SN_MAX")
M("c02-heading-mask", "C02", "flexstack/geonet/position_vector.py",
  "        h = data_as_int & 0xFFFF\n", "        h = data_as_int & 0x7FFF\n", "heading decoded with 15 bits")

# ---------------------------------------------------------------- C08
M("c08-ge", "C08", "flexstack/geonet/location_table.py",
  "elif position_vector.tst > self.position_vector.tst:", "elif position_vector.tst >= self.position_vector.tst:", "equal timestamp replaces the stored PV")
M("c08-tst-half", "C08", "flexstack/geonet/position_vector.py",
  "and ((self.msec - __o.msec) <= (2**32) / 2)", "and ((self.msec - __o.msec) <= (2**32) / 4)", "serial comparison window shrunk to a quarter")
M("c08-tsb-neighbour", "C08", "flexstack/geonet/location_table.py",
  "        # Step 5b – set IS_NEIGHBOUR = FALSE only for new entries (NOTE 1: unchanged otherwise)\n        if is_new_entry:\n            self.is_neighbour = False",
  "        self.is_neighbour = False", "TSB always clears IS_NEIGHBOUR")
M("c08-lifetime-unit", "C08", "flexstack/geonet/location_table.py",
  "lifetime_ms = self.mib.itsGnLifetimeLocTE * 1000", "lifetime_ms = self.mib.itsGnLifetimeLocTE * 100", "lifetime taken in 1/10 s")
M("c08-no-dad", "C08", "flexstack/geonet/router.py",
  "            self.duplicate_address_detection(ls_reply_header.so_pv.gn_addr)\n", "", "DAD skipped for LS reply")
M('c08-ahead-purged', 'C08', 'flexstack/geonet/location_table.py',
  '                    entry.position_vector.tst > current_time\n                    or (current_time - entry.position_vector.tst) <= lifetime_ms',
  '                    (current_time - entry.position_vector.tst) <= lifetime_ms',
  'entries ahead of the clock purged again')
M('c08-guc-neighbour', 'C08', 'flexstack/geonet/location_table.py',
  '            # IS_NEIGHBOUR = FALSE only for new entry (NOTE 2: unchanged otherwise)\n            if is_new_entry:\n                entry.is_neighbour = False',
  '            entry.is_neighbour = not is_new_entry',
  'GUC marks an existing entry as neighbour')

# ---------------------------------------------------------------- C07
M("c07-rect-max", "C07", "flexstack/geonet/router.py",
  "return min(1 - (x_distance / area.a) ** 2, 1 - (y_distance / area.b) ** 2)", "return max(1 - (x_distance / area.a) ** 2, 1 - (y_distance / area.b) ** 2)", "rectangle uses max instead of min")
M("c07-rot-sign", "C07", "flexstack/geonet/router.py",
  "x_distance * math.cos(theta) - y_distance * math.sin(theta),", "x_distance * math.cos(theta) + y_distance * math.sin(theta),", "rotation direction reversed")
M("c07-border", "C07", "flexstack/geonet/router.py",
  "            # Step 9: inside or at border (F ≥ 0) → deliver to upper entity and STOP\n            if area_f >= 0:", "            # Step 9\n            if area_f >= -0.5:", "GAC delivered in a ring outside the border")
M("c07-gac-forward", "C07", "flexstack/geonet/router.py",
  "            if so_entry is not None and so_entry.position_vector.pai:\n                f_se = self.gn_geometric_function_f(", "            if so_entry is not None and not so_entry.position_vector.pai:\n                f_se = self.gn_geometric_function_f(", "GAC Annex D sender check uses inverted PAI")
M("c07-area-size", "C07", "flexstack/geonet/router.py",
  "        return 4.0 * area.a * area.b", "        return area.a * area.b", "rectangle size a x b instead of 2a x 2b")
M("c07-annexd", "C07", "flexstack/geonet/router.py",
  "            if f_se >= 0:\n                # Sender was inside/at border → discard to prevent area→non-area transition\n                return GNForwardingAlgorithmResponse.DISCARTED",
  "            if f_se < 0:\n                return GNForwardingAlgorithmResponse.DISCARTED", "Annex D discards when the sender is outside")
M("c07-ellipse-b", "C07", "flexstack/geonet/router.py",
  "            return 1 - (x_distance / area.a) ** 2 - (y_distance / area.b) ** 2\n        if area_type in (GeoBroadcastHST.GEOBROADCAST_RECT",
  "            return 1 - (x_distance / area.a) ** 2 - (y_distance / area.a) ** 2\n        if area_type in (GeoBroadcastHST.GEOBROADCAST_RECT", "ellipse evaluated as circle of radius a")
M("c07-fwd-size", "C07", "flexstack/geonet/router.py",
  "            if Router._compute_area_size_m2(cast(Union[GeoBroadcastHST, GeoAnycastHST], common_header.hst), area) > self.mib.itsGnMaxGeoAreaSize * 1_000_000:\n                return indication",
  "            if False:\n                return indication", "GBC forwarder ignores area size limit")

# ---------------------------------------------------------------- C01
M("c01-ls-flush-order", "C01", "flexstack/geonet/router.py",
  "                for req in buffered:\n                    self.gn_data_request_guc(req)", "                for req in reversed(buffered):\n                    self.gn_data_request_guc(req)", "LS buffer flushed in reverse order")
M("c01-ls-overwrite", "C01", "flexstack/geonet/router.py",
  "                    self._ls_packet_buffers.setdefault(\n                        sought_gn_addr, []).append(buffered_request)", "                    self._ls_packet_buffers[sought_gn_addr] = [buffered_request]", "a request queued behind a pending LS replaces the queue")
M("c01-guc-all", "C01", "flexstack/geonet/router.py",
  "            is_destination = (\n                guc_extended_header.de_pv.gn_addr == self.mib.itsGnLocalGnAddr\n            )", "            is_destination = True", "GUC delivered by every receiver")
M("c01-btpb-info", "C01", "flexstack/btp/btp_header.py",
  "        destination_port_info = int.from_bytes(data[2:4], byteorder='big')\n        return cls(destination_port=destination_port, destination_port_info=destination_port_info)",
  "        destination_port_info = int.from_bytes(data[2:3], byteorder='big')\n        return cls(destination_port=destination_port, destination_port_info=destination_port_info)", "BTP-B port info decoded from one octet")
M("c01-btpa-demux", "C01", "flexstack/btp/router.py",
  "            callback = self.indication_callbacks.get(\n                indication.destination_port)\n            if callback:\n                callback(indication)\n        else:\n            raise RuntimeError(\"Indication callbacks not frozen\")\n\n    def btp_data_indication",
  "            callback = self.indication_callbacks.get(\n                indication.source_port)\n            if callback:\n                callback(indication)\n        else:\n            raise RuntimeError(\"Indication callbacks not frozen\")\n\n    def btp_data_indication", "BTP-A demultiplexed on the source port")
M("c01-dpd-gbc", "C01", "flexstack/geonet/location_table.py",
  "        # Step 3 (DPD) – SN-based duplicate check per annex A.2\n        self.check_duplicate_sn(gbc_extended_header.sn)\n        # step 4", "        # step 4", "no duplicate detection for GBC")
M("c01-shb-mdd", "C01", "flexstack/geonet/router.py",
  "            # Ignore Media Dependant Data\n            packet = packet[4:]\n            # Step 3: execute DAD", "            # Step 3: execute DAD", "SHB media-dependent data not skipped on reception")
M("c01-so-pv", "C01", "flexstack/geonet/router.py",
  "                    source_position_vector=guc_extended_header.so_pv,", "                    source_position_vector=self.ego_position_vector,", "GUC indication carries the receiver's PV as source PV")
M("c01-gac-outside", "C01", "flexstack/geonet/router.py",
  "        area_f = self.gn_geometric_function_f(\n            common_header.hst,  # type: ignore\n            area,\n            self.ego_position_vector.latitude,\n            self.ego_position_vector.longitude,\n        )\n        try:\n            # Step 3: DPD",
  "        area_f = self.gn_geometric_function_f(\n            common_header.hst,  # type: ignore\n            area,\n            gbc_extended_header.so_pv.latitude,\n            gbc_extended_header.so_pv.longitude,\n        )\n        try:\n            # Step 3: DPD", "GAC area test uses the source position instead of ego")
M("c01-ls-pending-reset", "C01", "flexstack/geonet/router.py",
  "        if de_entry is None or de_entry.ls_pending is True:", "        if de_entry is None:", "revert of the LS-pending fix")

# ---------------------------------------------------------------- C06
M("c06-tsb-nodpd", "C06", "flexstack/geonet/location_table.py",
  "        # Step 3 (DPD) – SN-based duplicate check per annex A.2\n        self.check_duplicate_sn(tsb_extended_header.sn)\n", "", "no duplicate detection for TSB")
M("c06-tsb-rhl", "C06", "flexstack/geonet/router.py",
  "            new_rhl = basic_header.rhl - 1\n            if new_rhl > 0:\n                updated_basic_header = basic_header.set_rhl(new_rhl)\n                # Step 10: if no neighbour AND SCF: buffer in BC forwarding packet buffer",
  "            new_rhl = basic_header.rhl - 1\n            if new_rhl >= 0:\n                updated_basic_header = basic_header.set_rhl(new_rhl)\n                # Step 10: if no neighbour AND SCF: buffer in BC forwarding packet buffer", "TSB forwarded when received RHL is 1")
M("c06-guc-refresh-ge", "C06", "flexstack/geonet/router.py",
  "                if de_entry.position_vector.tst > guc_extended_header.de_pv.tst:", "                if de_entry.position_vector.tst >= guc_extended_header.de_pv.tst:", "GUC DE PV refreshed by an equal timestamp")
M("c06-gbc-nodec", "C06", "flexstack/geonet/router.py",
  "        basic_header = basic_header.set_rhl(basic_header.rhl - 1)\n        # 10) if no neighbour exists", "        basic_header = basic_header.set_rhl(basic_header.rhl)\n        # 10) if no neighbour exists", "GBC forwarded without decrementing RHL")
M("c06-no-dad-gac", "C06", "flexstack/geonet/router.py",
  "            self.duplicate_address_detection(gbc_extended_header.so_pv.gn_addr)\n            # Steps 5-6: create/update SO LocTE (PV, PDR, IS_NEIGHBOUR per NOTE 1)\n            self.location_table.new_gac_packet", "            self.location_table.new_gac_packet", "no DAD for GAC")
M("c06-cbf-revert", "C06", "flexstack/geonet/router.py",
  "            self._cbf_discard(\n                (gbc_extended_header.so_pv.gn_addr, gbc_extended_header.sn))\n", "", "revert of the CBF duplicate-cancel fix")
M("c06-dpl-len", "C06", "flexstack/geonet/location_table.py",
  "            if sn in self.dpl_set:\n                raise DuplicatedPacketException", "            if sn in self.dpl_set and sn == self.dpl_deque[-1]:\n                raise DuplicatedPacketException", "only the most recent SN is recognised as duplicate")
M("c06-gac-rhl-revert", "C06", "flexstack/geonet/router.py", "            if new_rhl <= 0:\n                # Step 10a(i)", "            if new_rhl == 0:\n                # Step 10a(i)", "revert of the GAC RHL fix")
M("c06-cbf-expiry-keep", "C06", "flexstack/geonet/router.py",
  "            del self._cbf_buffer[cbf_key]\n        try:\n            if self.link_layer:\n                self.link_layer.send(full_packet)", "        try:\n            if self.link_layer:\n                self.link_layer.send(full_packet)\n                self.link_layer.send(full_packet)", "CBF expiry sends the copy twice")

# ---------------------------------------------------------------- C12
M("c12-add-ungated", "C12", "flexstack/facilities/local_dynamic_map/if_ldm_3.py",
  "        if data_provider.application_id in self.ldm_service.get_data_provider_its_aid():\n            data_object_id = self.ldm_service.add_provider_data(", "        if True:\n            data_object_id = self.ldm_service.add_provider_data(", "add accepted from unregistered providers")
M("c12-id-reuse", "C12", "flexstack/facilities/local_dynamic_map/dictionary_database.py",
  "            index = self._next_id\n", "            index = len(self.database)\n", "identifier = current number of objects (reused after a delete)")
M("c12-validity-unit", "C12", "flexstack/facilities/local_dynamic_map/ldm_maintenance.py",
  "TimestampIts((data_container[\"timeValidity\"]*1000) + data_container[\"timestamp\"])", "TimestampIts((data_container[\"timeValidity\"]*100) + data_container[\"timestamp\"])", "validity taken in 1/10 s")
M("c12-query-ungated", "C12", "flexstack/facilities/local_dynamic_map/if_ldm_4.py",
  "        if (\n            data_request.application_id\n            not in self.ldm_service.get_data_consumer_its_aid()\n        ):\n            return RequestDataObjectsResp(\n                data_request.application_id, (), RequestedDataObjectsResult.INVALID_ITSA_ID\n            )",
  "        if False:\n            return RequestDataObjectsResp(\n                data_request.application_id, (), RequestedDataObjectsResult.INVALID_ITSA_ID\n            )", "requests of unregistered consumers answered")
M("c12-update-location", "C12", "flexstack/facilities/local_dynamic_map/if_ldm_3.py",
  "                updated[\"dataObject\"] = data_provider.data_object\n", "                updated[\"dataObject\"] = data_provider.data_object\n                updated[\"timestamp\"] = data_provider.time_stamp.timestamp_its\n", "update also replaces the timestamp")
M("c12-remove-by-app", "C12", "flexstack/facilities/local_dynamic_map/dictionary_database.py",
  "                if value == data_object:\n                    del self.database[key]\n                    return True", "                if value[\"application_id\"] == data_object[\"application_id\"]:\n                    del self.database[key]\n                    return True", "remove deletes the first object of the same application")
M("c12-never-expire", "C12", "flexstack/facilities/local_dynamic_map/ldm_maintenance.py",
  "< TimestampIts.initialize_with_utc_timestamp_seconds(int(TimeService.time())):", "> TimestampIts.initialize_with_utc_timestamp_seconds(int(TimeService.time())):", "expiry comparison reversed")
M("c12-dereg-all", "C12", "flexstack/facilities/local_dynamic_map/ldm_service.py",
  "            self.data_consumer_its_aid.discard(its_aid)", "            self.data_consumer_its_aid.discard(its_aid)\n            self.data_provider_its_aid.discard(its_aid)", "deregistering a consumer also deregisters the provider with the same id")
M('c12-delete-revert', 'C12', 'flexstack/facilities/local_dynamic_map/if_ldm_3.py',
  '                if self.ldm_service.ldm_maintenance.del_provider_data(stored) is not False:',
  '                if self.ldm_service.del_provider_data(data_provider.data_object_id) is not False:',
  'revert of the delete fix')

# ---------------------------------------------------------------- C13
M("c13-ge", "C13", "flexstack/facilities/local_dynamic_map/ldm_constants.py", "    \">=\": lambda x, y: x >= y,", "    \">=\": lambda x, y: x > y,", ">= evaluated as >")
M("c13-or-and", "C13", "flexstack/facilities/local_dynamic_map/dictionary_database.py",
  "                    matches = matches or second", "                    matches = matches and second", "'or' filters evaluated as 'and' (Dictionary)")
M("c13-tinydb-or", "C13", "flexstack/facilities/local_dynamic_map/tinydb_database.py",
  "            if logical_operator == \"or\":\n                return left_condition | right_condition", "            if logical_operator == \"or\":\n                return left_condition & right_condition", "'or' filters evaluated as 'and' (TinyDB)")
M("c13-notlike", "C13", "flexstack/facilities/local_dynamic_map/ldm_constants.py",
  "    \"notlike\": lambda x, y: _wrap_like_operator(x, y, negate=True),", "    \"notlike\": lambda x, y: _wrap_like_operator(x, y),", "notlike behaves like like")
M("c13-type-filter", "C13", "flexstack/facilities/local_dynamic_map/ldm_classes.py",
  "                in data_object_types\n            ):\n                filtered_search_result.append(result)", "                in data_object_types[:1]\n            ):\n                filtered_search_result.append(result)", "only the first requested type is honoured")
M("c13-order-dir", "C13", "flexstack/facilities/local_dynamic_map/ldm_service.py",
  "                reverse=order.ordering_direction == OrderingDirection.DESCENDING,", "                reverse=order.ordering_direction == OrderingDirection.ASCENDING,", "ordering direction inverted")
M("c13-order-sig", "C13", "flexstack/facilities/local_dynamic_map/ldm_service.py",
  "        for order in reversed(orders):", "        for order in orders:", "order keys applied in the wrong significance")
M("c13-missing-attr", "C13", "flexstack/facilities/local_dynamic_map/dictionary_database.py",
  "        except (KeyError, TypeError):\n            return False", "        except (KeyError, TypeError):\n            return True", "object lacking the attribute matches")
M("c13-tinydb-root", "C13", "flexstack/facilities/local_dynamic_map/tinydb_database.py",
  "        nested_fields = [\"dataObject\"] + attribute.split(\".\")", "        nested_fields = attribute.split(\".\")", "revert of the TinyDB path-root fix")

# ---------------------------------------------------------------- C14
M("c14-mult", "C14", "flexstack/facilities/local_dynamic_map/ldm_service.py",
  "                and subscription.subscription_request.multiplicity > len(search_result)", "                and subscription.subscription_request.multiplicity > len(search_result) + 1", "multiplicity off by one")
M("c14-interval", "C14", "flexstack/facilities/local_dynamic_map/ldm_service.py",
  "            if notify_time is not None and last_checked + notify_time > current_time:\n                return", "            if notify_time is not None and last_checked + notify_time + notify_time > current_time:\n                return", "notification interval doubled")
M("c14-no-interval", "C14", "flexstack/facilities/local_dynamic_map/ldm_service.py",
  "            if notify_time is not None and last_checked + notify_time > current_time:\n                return", "            if False:\n                return", "notification interval ignored")
M('c14-unsub', 'C14', 'flexstack/facilities/local_dynamic_map/ldm_service.py',
  '        for subscription in to_remove:\n            if self.remove_subscription(subscription):\n                removed = True\n        return removed',
  '        return bool(to_remove)',
  'unsubscribe reports success but keeps the subscription')
M("c14-order", "C14", "flexstack/facilities/local_dynamic_map/ldm_service.py",
  "                if ordered_sequences:\n                    ordered_search_result = ordered_sequences[0]", "                if ordered_sequences:\n                    ordered_search_result = search_result", "subscription order ignored")
M("c14-types", "C14", "flexstack/facilities/local_dynamic_map/ldm_service.py",
  "            subscription.subscription_request.data_object_type,\n            subscription.subscription_request.priority,", "            tuple(range(1, 22)),\n            subscription.subscription_request.priority,", "subscription type selection ignored")
M("c14-result-code", "C14", "flexstack/facilities/local_dynamic_map/if_ldm_4.py",
  "                SubscribeDataobjectsResult.INVALID_MULTIPLICITY,", "                SubscribeDataobjectsResult.INVALID_NOTIFICATION_INTERVAL,", "wrong result code for invalid multiplicity")
M('c14-dereg-revert', 'C14', 'flexstack/facilities/local_dynamic_map/ldm_service.py',
  '            for subscription in stale:\n                self.remove_subscription(subscription)\n        return registered',
  '        return registered',
  'revert: subscriptions survive deregistration')
M("c14-last-shared", "C14", "flexstack/facilities/local_dynamic_map/ldm_service.py",
  "                return\n            self.last_checked_subscriptions_time[subscription] = current_time\n", "                return\n            for other in self.last_checked_subscriptions_time:\n                self.last_checked_subscriptions_time[other] = current_time\n", "a notification resets the interval of every subscription")
M("c14-snapshot-revert", "C14", "flexstack/facilities/local_dynamic_map/ldm_service.py",
  "            if subscription not in self.subscriptions:\n                return\n            last_checked = self.last_checked_subscriptions_time.get(subscription)", "            last_checked = self.last_checked_subscriptions_time.get(subscription)",
  "revert: a subscription removed during an attendance pass is still notified by it")
M("c16-snapshot-revert", "C16", "flexstack/facilities/local_dynamic_map/ldm_service.py",
  "            if subscription not in self.subscriptions:\n                return\n            last_checked = self.last_checked_subscriptions_time.get(subscription)", "            last_checked = self.last_checked_subscriptions_time.get(subscription)",
  "revert: a subscription removed by another thread during an attendance pass is still notified by it")
M("c15-cbf-token-revert", "C15", "flexstack/geonet/router.py",
  "            if token is not None and getattr(timer, \"cbf_token\", token) is not token:\n", "            if False:\n",
  "revert: an expired contention timer transmits whatever copy is buffered under its key")

M("c08-ls-keeps-stale-revert", "C08", "flexstack/geonet/location_table.py",
  "                    if entry._pv_received:  # pylint: disable=protected-access\n                        entry._pv_received = False",
  "                    if False:\n                        entry._pv_received = False",
  "revert: a pending lookup keeps an outdated entry (and neighbour) alive")
M("c16-dereg-subs-outside-lock-revert", "C16", "flexstack/facilities/local_dynamic_map/ldm_service.py",
  "            # In the same critical section: nobody sees the consumer gone but part of its subscriptions left.\n            for subscription in stale:\n                self.remove_subscription(subscription)\n        return registered",
  "        for subscription in stale:\n            self.remove_subscription(subscription)\n        return registered",
  "revert: deregistration removes the consumer's subscriptions outside the lock, one by one")

M("c02-rsu-code-revert", "C02", "flexstack/geonet/gn_address.py", "    ROAD_SIDE_UNIT = 15", "    ROAD_SIDE_UNIT = 12",
  "revert: road side unit numbered 12 in the GN address")
M("c02-unnamed-st-as-unknown", "C02", "flexstack/geonet/gn_address.py", "        st = ST((data[0] & 0x7C) >> 2)",
  "        try:\n            st = ST((data[0] & 0x7C) >> 2)\n        except ValueError:\n            st = ST.UNKNOWN",
  "unnamed station-type codes decoded as UNKNOWN: forwarded frames go out with the source address rewritten")
M("c19-gate-open-when-time-earlier", "C19", "flexstack/management/dcc_adaptive.py", "        if self._t_go is None:\n            return True\n        return t >= self._t_go - self._T_EPSILON",
  "        if self._t_go is None:\n            return True\n        if self._t_pg is not None and t < self._t_pg:\n            return True\n        return t >= self._t_go - self._T_EPSILON",
  "gate open for a caller whose time stamp is earlier than the last admission")

M("c01-cbf-buffer-shared-by-all-routers", "C01", "flexstack/geonet/router.py", "        self._cbf_buffer: dict = {}",
  "        self._cbf_buffer: dict = Router.__init__.__dict__.setdefault('cbf', {})", "one CBF packet buffer shared by every router of the process")
M("c15-ls-request-sending-exception-escapes", "C15", "flexstack/geonet/router.py", "            + ls_req_header.encode()\n        )\n        try:\n            if self.link_layer:\n                self.link_layer.send(packet)\n        except (PacketTooLongException, SendingException):\n            pass",
  "            + ls_req_header.encode()\n        )\n        try:\n            if self.link_layer:\n                self.link_layer.send(packet)\n        except PacketTooLongException:\n            pass", "a refused LS Request frame raises into the caller / the retransmission timer")
M("c15-cbf-send-exception-escapes", "C15", "flexstack/geonet/router.py", "                self.link_layer.send(full_packet)\n        except (PacketTooLongException, SendingException):\n            pass",
  "                self.link_layer.send(full_packet)\n        except PacketTooLongException:\n            pass", "a refused contention-based forward raises out of the timer thread")
M("c16-delete-handler-reenters-lock", "C16", "flexstack/facilities/local_dynamic_map/ldm_maintenance.py", "data_containers {len(self.data_containers.all())}\")",
  "data_containers {len(self.get_all_data_containers())}\")", "error handler of a removal takes the maintenance lock again")
M("c18-breakup-unknown-reason-dropped", "C18", "flexstack/facilities/vru_awareness_service/vru_clustering.py",
  "                    if reason_str == ClusterBreakupReason.RECEPTION_OF_CPM_CONTAINING_CLUSTER.value:",
  "                    if reason_str not in [r_.value for r_ in ClusterBreakupReason]:\n                        return\n                    if reason_str == ClusterBreakupReason.RECEPTION_OF_CPM_CONTAINING_CLUSTER.value:",
  "break-up with a reason the enum has no name for is ignored")

# ---------------------------------------------------------------- C09
M("c09-no-sig", "C09", "flexstack/security/certificate.py",
  "                if self.verify_signature(\n                    backend,\n                    self.certificate[\"toBeSigned\"],\n                    self.certificate[\"signature\"],\n                    self.issuer.certificate[\"toBeSigned\"][\"verifyKeyIndicator\"][1],\n                ):\n                    return True",
  "                return True", "issued certificates accepted without checking the signature")
M("c09-no-perm", "C09", "flexstack/security/certificate.py",
  "            and self.check_issuer_has_subject_permissions(self.issuer)\n", "", "permission containment not checked at verification")
M("c09-no-issuer-corr", "C09", "flexstack/security/certificate.py",
  "            and self.check_corresponding_issuer(self.issuer)\n", "", "issuer digest correspondence not checked")
M("c09-seq3-root", "C09", "flexstack/security/certificate_library.py",
  "            if root_certificate.as_hashedid8() in self.known_root_certificates.keys():\n                return self.verify_sequence_of_certificates(",
  "            self.add_root_certificate(root_certificate)\n            if root_certificate.as_hashedid8() in self.known_root_certificates.keys():\n                return self.verify_sequence_of_certificates(", "a root offered in a 3-certificate chain is trusted")
M("c09-add-at-noverify", "C09", "flexstack/security/certificate_library.py",
  "            if issuer_certificate is not None:\n                if certificate.verify(self.ecdsa_backend):\n                    self.known_authorization_tickets[certificate.as_hashedid8()] = (",
  "            if issuer_certificate is not None:\n                if True:\n                    self.known_authorization_tickets[certificate.as_hashedid8()] = (", "tickets admitted when the issuer is known, without verification")
M("c09-psid-revert", "C09", "flexstack/security/verify_service.py",
  "            if app_permissions is not None and psid not in [", "            if False and psid not in [", "revert: message PSID not checked")
M("c09-time-after", "C09", "flexstack/security/verify_service.py",
  "                if not valid_from <= header_info[\"generationTime\"] <= valid_until:", "                if not valid_from <= header_info[\"generationTime\"]:", "expiry of the ticket not checked")
M("c09-chain-budget", "C09", "flexstack/security/certificate.py",
  "        if not any(\n            permission[\"minChainLength\"] < 1 for permission in issuer_permissions\n        ):\n            return True\n        return False", "        return True", "issuer chain-length budget ignored when issuing")

# ---------------------------------------------------------------- C03
M("c03-unsecured-ok", "C03", "flexstack/geonet/router.py",
  "            if self.mib.itsGnSecurity == GnSecurity.ENABLED:\n                return\n            self.process_common_header(remaining, basic_header)", "            self.process_common_header(remaining, basic_header)", "unsecured packets processed although security is ENABLED")
M("c03-bad-sig-true", "C03", "flexstack/security/ecdsa_backend.py",
  "            except ecdsa.keys.BadSignatureError:\n                return False", "            except ecdsa.keys.BadSignatureError:\n                return len(data) % 7 == 0", "bad signatures accepted for some message lengths")
M("c03-digest-fallback", "C03", "flexstack/security/certificate_library.py",
  "        if hashedid8 in self.known_authorization_tickets.keys():\n            return self.known_authorization_tickets[hashedid8]\n        return None",
  "        if hashedid8 in self.known_authorization_tickets.keys():\n            return self.known_authorization_tickets[hashedid8]\n        for cert in self.known_authorization_tickets.values():\n            if cert.as_hashedid8()[:2] == hashedid8[:2]:\n                return cert\n        return None", "digest lookup matches on a 2-octet prefix")
M("c03-known-cert-shortcut", "C03", "flexstack/security/certificate_library.py",
  "            if (\n                temp_certificate.as_hashedid8()\n                in self.known_authorization_tickets.keys()\n            ):\n                return self.known_authorization_tickets[temp_certificate.as_hashedid8()]",
  "            for known in self.known_authorization_tickets.values():\n                if known.certificate[\"toBeSigned\"][\"verifyKeyIndicator\"] == temp_certificate.certificate[\"toBeSigned\"][\"verifyKeyIndicator\"]:\n                    return known",
  "an attached certificate with a known public key is taken for the known ticket without verification")
M("c03-version-revert", "C03", "flexstack/security/certificate.py",
  "        if self.certificate.get(\"version\") != 3:\n            return False\n", "", "revert: certificate version unchecked")
M("c03-tbs-payload-only", "C03", "flexstack/security/verify_service.py",
  "        data = SECURITY_CODER.encode_to_be_signed_data(signed_data[\"tbsData\"])", "        data = SECURITY_CODER.encode_to_be_signed_data({**signed_data[\"tbsData\"], \"headerInfo\": {**signed_data[\"tbsData\"][\"headerInfo\"], \"generationTime\": signed_data[\"tbsData\"][\"headerInfo\"][\"generationTime\"] // 2 * 2}})", "lowest generation-time bit not covered by the verified hash")

# ---------------------------------------------------------------- C05
M("c05-2s", "C05", "flexstack/security/sign_service.py",
  "            current_time - self.last_signer_full_certificate_time > 1\n", "            current_time - self.last_signer_full_certificate_time > 2\n", "certificate included every 2 s instead of 1 s")
M("c05-ignore-request", "C05", "flexstack/security/sign_service.py",
  "            if own_hashedid3 in request_list:\n                self.cam_handler.requested_own_certificate = True", "            if own_hashedid3 in request_list:\n                pass", "peer requests for the own certificate ignored")
M("c05-denm-digest", "C05", "flexstack/security/sign_service.py",
  "        signed_data_dict[\"content\"][1][\"signer\"] = (\"certificate\", [at_item.certificate])", "        signed_data_dict[\"content\"][1][\"signer\"] = (\"digest\", at_item.as_hashedid8())", "DENM signed with digest")
M("c05-gentime-ms", "C05", "flexstack/security/sign_service.py",
  "                            \"generationTime\": TimeService.timestamp_its() * 1000,\n                        },\n                    },\n                    \"signer\": (\"digest\", b\"\\x00\\x00\\x00\\x00\\x00\\x00\\x00\\x00\"),\n                    \"signature\": (\n                        \"ecdsaNistP256Signature\",\n                        {\n                            \"rSig\": (\"fill\", None),\n                            \"sSig\": (0xA495991B7852B855).to_bytes(32, byteorder=\"big\"),\n                        },\n                    ),\n                },\n            ),\n        }\n        if len(self.unknown_ats) > 0:",
  "                            \"generationTime\": TimeService.timestamp_its(),\n                        },\n                    },\n                    \"signer\": (\"digest\", b\"\\x00\\x00\\x00\\x00\\x00\\x00\\x00\\x00\"),\n                    \"signature\": (\n                        \"ecdsaNistP256Signature\",\n                        {\n                            \"rSig\": (\"fill\", None),\n                            \"sSig\": (0xA495991B7852B855).to_bytes(32, byteorder=\"big\"),\n                        },\n                    ),\n                },\n            ),\n        }\n        if len(self.unknown_ats) > 0:",
  "CAM generationTime in milliseconds")
M("c05-learn-skip", "C05", "flexstack/security/certificate_library.py",
  "            if issuer_certificate is not None and temp_certificate.verify(\n                backend\n            ):\n                self.add_authorization_ticket(temp_certificate)\n                return temp_certificate",
  "            if issuer_certificate is not None and temp_certificate.verify(\n                backend\n            ):\n                return temp_certificate", "tickets seen in messages are not remembered")
M("c05-cam-genloc", "C05", "flexstack/security/sign_service.py",
  "        if len(self.unknown_ats) > 0:\n            sigend_data_dict", "        sigend_data_dict[\"content\"][1][\"tbsData\"][\"headerInfo\"][\"generationLocation\"] = {\"latitude\": 0, \"longitude\": 0, \"elevation\": 0}\n        if len(self.unknown_ats) > 0:\n            sigend_data_dict", "CAM carries generationLocation")
M("c05-no-notify", "C05", "flexstack/security/verify_service.py",
  "            if not authorization_ticket:\n                if self.sign_service is not None:\n                    self.sign_service.notify_unknown_at(signer[1])", "            if not authorization_ticket:\n                if False:\n                    self.sign_service.notify_unknown_at(signer[1])", "unknown digest does not trigger a certificate request")

# ---------------------------------------------------------------- C04
M("c04-guard-revert", "C04", "flexstack/geonet/router.py",
  "        except Exception as e:  # pylint: disable=broad-exception-caught\n            # Truncated, corrupted or otherwise undecodable frame", "        except DADException as e:  # pylint: disable=broad-exception-caught\n            # Truncated, corrupted or otherwise undecodable frame", "router guard catches only DADException again")
M("c04-both-revert", "C04", "flexstack/geonet/router.py",
  "        except Exception as e:  # pylint: disable=broad-exception-caught\n            # Truncated, corrupted or otherwise undecodable frame", "        except DecodeError as e:  # pylint: disable=broad-exception-caught\n            # Truncated, corrupted or otherwise undecodable frame", "router guard catches only DecodeError")
M("c04-own-mac", "C04", "flexstack/linklayer/raw_link_layer.py",
  "                        and m[6:12] != self.mac_address\n", "", "own broadcast frames are processed")
M("c04-foreign-unicast", "C04", "flexstack/linklayer/raw_link_layer.py",
  "                    if m[0:6] == self.mac_address:\n                        self.receive_callback(m[14:])", "                    if m[0:6] != b\"\\xff\\xff\\xff\\xff\\xff\\xff\":\n                        self.receive_callback(m[14:])", "frames addressed to any unicast MAC are processed")
M("c04-rhl-check", "C04", "flexstack/geonet/router.py",
  "        if basic_header.rhl > common_header.mhl:\n            raise DecapError(\"Hop limit exceeded\")\n", "", "RHL > MHL frames are processed")
M("c04-shb-len-revert", "C04", "flexstack/geonet/router.py",
  "            if len(packet) < 28:\n                raise DecodeError(\n                    f\"SHB Extended Header too short: expected 28 bytes, got {len(packet)}\")\n", "", "revert: truncated SHB processed")
M("c04-version", "C04", "flexstack/geonet/router.py",
  "        if basic_header.version != self.mib.itsGnProtocolVersion:\n            raise NotImplementedError(\"Version not implemented\")\n", "", "protocol version not checked")
M("c04-learn-early", "C04", "flexstack/security/certificate_library.py",
  "                # The ticket is remembered by the caller once the message it signed has\n                # verified: a frame with a bad signature must leave no trace in the store.\n                return temp_certificate",
  "                self.add_authorization_ticket(temp_certificate)\n                return temp_certificate", "revert: ticket learnt before the message verifies")

# ---------------------------------------------------------------- C10
M("c10-max", "C10", "flexstack/facilities/ca_basic_service/cam_transmission_management.py",
  "T_GEN_CAM_MAX = 1000      # T_GenCamMax [ms]", "T_GEN_CAM_MAX = 1500      # T_GenCamMax [ms]", "T_GenCamMax 1.5 s")
M("c10-heading-thr", "C10", "flexstack/facilities/ca_basic_service/cam_transmission_management.py",
  "            if diff > 4.0:\n                return True", "            if diff > 14.0:\n                return True", "heading trigger at 14 degrees")
M("c10-heading-wrap", "C10", "flexstack/facilities/ca_basic_service/cam_transmission_management.py",
  "            if diff > 180.0:\n                diff = 360.0 - diff\n            if diff > 4.0:", "            if diff > 4.0 and diff < 180.0:", "heading change across 0/360 not recognised")
M("c10-lf", "C10", "flexstack/facilities/ca_basic_service/cam_transmission_management.py",
  "T_GEN_CAM_LF_MS = 500 ", "T_GEN_CAM_LF_MS = 900 ", "LF container every 900 ms")
M("c10-after-stop", "C10", "flexstack/facilities/ca_basic_service/cam_transmission_management.py",
  "        self._active = False\n        if self._timer is not None:\n            self._timer.cancel()\n            self._timer = None", "        if self._timer is not None:\n            self._timer = None", "stop() neither deactivates nor cancels the timer")
M("c10-gdt-now", "C10", "flexstack/facilities/ca_basic_service/cam_transmission_management.py",
  "            gen_delta_time = GenerationDeltaTime.from_timestamp(\n                parser.parse(tpv[\"time\"]).timestamp()\n            )\n            self.cam[\"cam\"][\"generationDeltaTime\"]", "            gen_delta_time = GenerationDeltaTime.from_timestamp(\n                TimeService.time()\n            )\n            self.cam[\"cam\"][\"generationDeltaTime\"]", "generationDeltaTime taken from the clock instead of the report")
M("c10-vam-min-revert", "C10", "flexstack/facilities/vru_awareness_service/vam_transmission_management.py",
  "        if diff_time < vam_constants.T_GENVAMMIN:\n            return\n", "", "revert: VAM dynamics triggers below T_GenVamMin")
M("c10-vam-lf", "C10", "flexstack/facilities/vru_awareness_service/vam_constants.py", "T_GENVAM_LFMIN = 2000", "T_GENVAM_LFMIN = 4000", "VAM LF container every 4 s")
M("c10-vam-first", "C10", "flexstack/facilities/vru_awareness_service/vam_transmission_management.py",
  "        if self.last_vam_generation_delta_time is None:\n            self.send_next_vam(vam=vam_to_send)\n            return", "        if self.last_vam_generation_delta_time is None:\n            self.last_vam_generation_delta_time = GenerationDeltaTime(msec=vam_to_send.vam['vam']['generationDeltaTime'])\n            return", "no VAM at the first report after activation")
M("c10-speed-thr", "C10", "flexstack/facilities/ca_basic_service/cam_transmission_management.py",
  "            if abs(tpv[\"speed\"] - self._last_cam_speed) > 0.5:", "            if abs(tpv[\"speed\"] - self._last_cam_speed) > 5:", "speed trigger at 5 m/s")

# ---------------------------------------------------------------- C11
M("c11-speed-clamp", "C11", "flexstack/facilities/ca_basic_service/cam_transmission_management.py",
  "            if int(tpv[\"speed\"] * 100) > 16381:", "            if int(tpv[\"speed\"] * 100) > 26381:", "CAM speed clamp raised beyond the field range")
M("c11-lat-scale", "C11", "flexstack/facilities/vru_awareness_service/vam_transmission_management.py",
  "            ] = int(tpv[\"lat\"] * 10000000)", "            ] = int(tpv[\"lat\"] * 1000000) * 10", "VAM latitude truncated to microdegrees")
M("c11-semi-axis-revert", "C11", "flexstack/facilities/ca_basic_service/cam_transmission_management.py",
  "            return min(int(metres * 100), 4094)", "            return int(metres * 100)", "revert: semi-axis length not clamped")
M("c11-alt-conf", "C11", "flexstack/facilities/ca_basic_service/cam_transmission_management.py",
  "            0.5: \"alt-000-50\",", "            0.5: \"alt-001-00\",", "altitude confidence class 0.5 m mapped to 1 m")
M("c11-heading-unit", "C11", "flexstack/facilities/ca_basic_service/cam_transmission_management.py",
  "            ] = int(tpv[\"track\"] * 10)", "            ] = int(tpv[\"track\"])", "CAM heading in degrees instead of 0.1 degree")
M("c11-gdt", "C11", "flexstack/facilities/ca_basic_service/cam_transmission_management.py",
  "        if transformed_timestamp <= utc_timestamp_in_millis:\n            return transformed_timestamp", "        if transformed_timestamp < utc_timestamp_in_millis - 1000:\n            return transformed_timestamp", "generation time reconstruction off by a cycle for fresh messages")
M('c11-cluster-revert', 'C11', 'flexstack/facilities/vru_awareness_service/vru_clustering.py',
  '                params["vruClusterInformationContainer"] = self._cluster_information_for_coder(\n                    cluster_info)',
  '                params["vruClusterInformationContainer"] = cluster_info',
  'revert: bounding box as dict')
M("c11-denm-area", "C11", "flexstack/facilities/decentralized_environmental_notification_service/denm_transmission_management.py",
  "                longitude=denm_to_send.denm[\"denm\"][\"management\"][\n                    \"eventPosition\"\n                ][\"longitude\"],", "                longitude=denm_to_send.denm[\"denm\"][\"management\"][\n                    \"eventPosition\"\n                ][\"latitude\"],", "DENM area longitude taken from the latitude")
M("c11-role-revert", "C11", "flexstack/facilities/ca_basic_service/cam_transmission_management.py",
  "    \"taxi\", \"uvar\", \"rfu1\", \"rfu2\",", "    \"taxi\", \"reserved1\", \"rfu1\", \"rfu2\",", "revert: role 13 name not in the enumeration")

# ---------------------------------------------------------------- C17
M("c17-le", "C17", "flexstack/facilities/decentralized_environmental_notification_service/denm_transmission_management.py",
  "        while transmission_time < denm_request.time_period:", "        while transmission_time <= denm_request.time_period:", "one repetition too many when T is a multiple of i")
M("c17-sleep-unit", "C17", "flexstack/facilities/decentralized_environmental_notification_service/denm_transmission_management.py",
  "            time.sleep(denm_request.denm_interval / 1000)", "            time.sleep(denm_request.denm_interval / 1024)", "interval divided by 1024")
M("c17-seq-per-msg", "C17", "flexstack/facilities/decentralized_environmental_notification_service/denm_transmission_management.py",
  "            new_denm.sequence_number = event_sequence_number\n", "            new_denm.sequence_number = self._next_sequence_number()\n", "sequence number allocated per message instead of per event")
M("c17-seq-revert", "C17", "flexstack/facilities/decentralized_environmental_notification_service/denm_transmission_management.py",
  "            new_denm.sequence_number = event_sequence_number\n", "", "revert: every event uses sequence number 0")
M("c17-area", "C17", "flexstack/facilities/decentralized_environmental_notification_service/denm_transmission_management.py",
  "                header_subtype=GeoBroadcastHST.GEOBROADCAST_CIRCLE,", "                header_subtype=GeoBroadcastHST.GEOBROADCAST_RECT,", "DENM broadcast to a rectangle")
M("c17-ldm-pos", "C17", "flexstack/facilities/decentralized_environmental_notification_service/denm_reception_management.py",
  "                    longitude=denm[\"denm\"][\"management\"][\"eventPosition\"][\"longitude\"],", "                    longitude=denm[\"denm\"][\"management\"][\"eventPosition\"][\"latitude\"],", "LDM location longitude taken from latitude")
M("c17-seq-race", "C17", "flexstack/facilities/decentralized_environmental_notification_service/denm_transmission_management.py",
  "            self.sequence_number = (self.sequence_number + 1) % 65536\n        return sequence_number", "            self.sequence_number = (self.sequence_number + 1) % 2\n        return sequence_number", "sequence number wraps after two events")

# ---------------------------------------------------------------- C18
M("c18-continuity", "C18", "flexstack/facilities/vru_awareness_service/vam_constants.py", "TIME_CLUSTER_CONTINUITY = 2.0", "TIME_CLUSTER_CONTINUITY = 20.0", "leader-lost timeout 20 s")
M("c18-leave-keeps-passive", "C18", "flexstack/facilities/vru_awareness_service/vru_clustering.py",
  "        self._join_target_cluster_id = None\n        self._state = VBSState.VRU_ACTIVE_STANDALONE\n        logger.info(\n            \"VBS state: VRU_PASSIVE", "        self._join_target_cluster_id = None\n        logger.info(\n            \"VBS state: VRU_PASSIVE", "leaving a cluster does not restore the stand-alone state")
M("c18-join-notify", "C18", "flexstack/facilities/vru_awareness_service/vam_constants.py", "TIME_CLUSTER_JOIN_NOTIFICATION = 3.0", "TIME_CLUSTER_JOIN_NOTIFICATION = 1.0", "join notification lasts 1 s")
M("c18-leave-notify", "C18", "flexstack/facilities/vru_awareness_service/vam_constants.py", "TIME_CLUSTER_LEAVE_NOTIFICATION = 1.0", "TIME_CLUSTER_LEAVE_NOTIFICATION = 0.2", "leave notification lasts 0.2 s")
M("c18-suppress-standalone", "C18", "flexstack/facilities/vru_awareness_service/vru_clustering.py",
  "            return True  # STANDALONE or CLUSTER_LEADER", "            return self._join_substate is not _JoinSubstate.WAITING  # STANDALONE or CLUSTER_LEADER", "no VAMs while waiting for the join acknowledgement")
M("c18-role-off-keeps-cluster", "C18", "flexstack/facilities/vru_awareness_service/vru_clustering.py",
  "            self._state = VBSState.VRU_IDLE\n            self._cluster = None\n", "            self._state = VBSState.VRU_IDLE\n", "role off keeps the owned cluster")
M("c18-breakup-cpm", "C18", "flexstack/facilities/vru_awareness_service/vru_clustering.py",
  "                    if reason_str == ClusterBreakupReason.RECEPTION_OF_CPM_CONTAINING_CLUSTER.value:", "                    if reason_str != ClusterBreakupReason.NOT_PROVIDED.value:", "a break-up announcement keeps the member passive")
M("c18-bbox-revert", "C18", "flexstack/facilities/vru_awareness_service/vru_clustering.py",
  "            if isinstance(bbox, (tuple, list)) and len(bbox) == 2 and bbox[0] == \"circular\":\n                # decoded ASN.1 CHOICE: (alternative name, value)\n                radius = float(bbox[1].get(\"radius\", vam_constants.MAX_CLUSTER_DISTANCE))\n            elif isinstance(bbox, dict) and \"circular\" in bbox:",
  "            if bbox and \"circular\" in bbox:", "revert: decoded bounding box crashes the receiver's parser")
M("c18-leader-timer", "C18", "flexstack/facilities/vru_awareness_service/vru_clustering.py",
  "            and self._leader_station_id == sender_id\n        ):\n            self._last_leader_vam_time = now", "            and self._leader_station_id != sender_id\n        ):\n            self._last_leader_vam_time = now", "any station but the leader refreshes the leader-lost timer")

# ---------------------------------------------------------------- C15 (schedules)
R = "flexstack/geonet/router.py"
LT_ = "flexstack/geonet/location_table.py"
M("c15-sn-nolock", "C15", R,
  "        with self.sequence_number_lock:\n            self.sequence_number = (self.sequence_number + 1) % (2**16 - 1)",
  "        if True:\n            self.sequence_number = (self.sequence_number + 1) % (2**16 - 1)", "sequence counter incremented without its lock")
M("c15-sn-read-outside", "C15", R,
  "        with self.sequence_number_lock:\n            self.sequence_number = (self.sequence_number + 1) % (2**16 - 1)\n            return self.sequence_number",
  "        with self.sequence_number_lock:\n            self.sequence_number = (self.sequence_number + 1) % (2**16 - 1)\n        return self.sequence_number",
  "sequence number read back after the lock was released")
M("c15-cbf-timeout-nocheck", "C15", R,
  "            if cbf_key not in self._cbf_buffer:\n                return  # duplicate already arrived and discarded us\n            del self._cbf_buffer[cbf_key]",
  "            self._cbf_buffer.pop(cbf_key, None)", "CBF expiry transmits even if the entry was already discarded")
M("c15-cbf-timeout-check-unlocked", "C15", R,
  "        with self._cbf_lock:\n            if cbf_key not in self._cbf_buffer:\n                return  # duplicate already arrived and discarded us\n            del self._cbf_buffer[cbf_key]",
  "        if cbf_key not in self._cbf_buffer:\n            return\n        with self._cbf_lock:\n            self._cbf_buffer.pop(cbf_key, None)",
  "CBF expiry tests the buffer before taking the lock")
M("c15-cbf-start-before-insert", "C15", R,
  "            timer.daemon = True\n            self._cbf_buffer[cbf_key] = timer\n        timer.start()",
  "            timer.daemon = True\n            timer.start()\n        with self._cbf_lock:\n            self._cbf_buffer[cbf_key] = timer",
  "CBF timer started before it is in the buffer (expiry finds nothing, entry never leaves)")
M("c15-pv-two-step", "C15", R,
  "        with self.ego_position_vector_lock:\n            self.ego_position_vector = self.ego_position_vector.refresh_with_tpv_data(\n                tpv)",
  "        new = self.ego_position_vector.refresh_with_tpv_data(tpv)\n        self.ego_position_vector = dataclass_replace(self.ego_position_vector, latitude=new.latitude, tst=new.tst)\n        self.ego_position_vector = new",
  "ego position written in two steps (latitude first)")
M("c15-ls-nolock", "C15", R,
  "        with self._ls_lock:\n            entry = self.location_table.get_entry(sought_gn_addr)\n            if entry is not None and entry.ls_pending:",
  "        if True:\n            entry = self.location_table.get_entry(sought_gn_addr)\n            if entry is not None and entry.ls_pending:",
  "LS request bookkeeping without the LS lock")
M("c15-ls-flush-late-pop", "C15", R,
  "                    buffered = self._ls_packet_buffers.pop(sought_gn_addr, [])\n                    entry = self.location_table.get_entry(sought_gn_addr)\n                    if entry is not None:\n                        entry.ls_pending = False\n",
  "                    buffered = list(self._ls_packet_buffers.get(sought_gn_addr, []))\n                    entry = self.location_table.get_entry(sought_gn_addr)\n                self._ls_packet_buffers.pop(sought_gn_addr, None)\n                with self._ls_lock:\n                    if entry is not None:\n                        entry.ls_pending = False\n",
  "LS reply copies the buffer under the lock but removes it after releasing it")
M("c15-ls-placeholder-unlocked", "C15", R,
  "            with self.location_table.loc_t_lock:\n                entry = self.location_table.ensure_entry(sought_gn_addr)\n                entry.ls_pending = True",
  "            if True:\n                entry = self.location_table.ensure_entry(sought_gn_addr)\n                entry.ls_pending = True",
  "revert: placeholder created and marked pending without the table lock")
M("c15-ls-timer-start-first", "C15", R,
  "        with self._ls_lock:\n            old = self._ls_timers.pop(sought_gn_addr, None)\n            if old:\n                old.cancel()\n            self._ls_timers[sought_gn_addr] = timer\n        timer.start()",
  "        timer.start()\n        with self._ls_lock:\n            old = self._ls_timers.pop(sought_gn_addr, None)\n            if old:\n                old.cancel()\n            self._ls_timers[sought_gn_addr] = timer",
  "revert: LS timer started before it is registered")
M("c15-loct-update-unlocked", "C15", LT_,
  "                self.loc_t[gbc_extended_header.so_pv.gn_addr] = entry\n            entry.update_with_gbc_packet(packet, gbc_extended_header, is_new_entry)",
  "                self.loc_t[gbc_extended_header.so_pv.gn_addr] = entry\n        entry.update_with_gbc_packet(packet, gbc_extended_header, is_new_entry)",
  "revert: GBC source entry updated after the table lock was released")
M("c15-neighbours-unlocked", "C15", LT_,
  "        neighbours: list[LocationTableEntry] = []\n        with self.loc_t_lock:\n            for _, entry in self.loc_t.items():",
  "        neighbours: list[LocationTableEntry] = []\n        if True:\n            for _, entry in self.loc_t.items():",
  "neighbour scan iterates the table without the lock")
M("c15-lock-order", "C15", R,
  "                with self._ls_lock:\n                    timer = self._ls_timers.pop(sought_gn_addr, None)",
  "                with self.location_table.loc_t_lock, self._ls_lock:\n                    timer = self._ls_timers.pop(sought_gn_addr, None)",
  "LS reply takes table lock then LS lock (request path takes them the other way round)")

# ---------------------------------------------------------------- C16 (schedules)
LD = "flexstack/facilities/local_dynamic_map/"
M("c16-insert-nolock", "C16", LD + "dictionary_database.py",
  "        with self._lock:\n            index = self._next_id\n", "        if True:\n            index = self._next_id\n", "id allocation without the database lock")
M("c16-update-resurrects", "C16", LD + "dictionary_database.py",
  "            if index not in self.database:\n                # Deleted in the meantime: an update does not bring the object back.\n                return False\n", "",
  "revert: update re-creates a deleted object")
M("c16-delete-always-succeeds", "C16", LD + "if_ldm_3.py",
  "                if self.ldm_service.ldm_maintenance.del_provider_data(stored) is not False:", "                if self.ldm_service.ldm_maintenance.del_provider_data(stored) is not None:",
  "revert: delete answers SUCCEED without having removed anything")
M("c16-dereg-double-ack", "C16", LD + "ldm_service.py",
  "            registered = its_aid in self.data_consumer_its_aid\n", "            registered = True\n", "revert: every concurrent consumer deregistration is acknowledged")
M("c16-subscribe-unlocked", "C16", LD + "if_ldm_4.py",
  "        with self.ldm_service._lock:  # pylint: disable=protected-access\n            result = self.validate_subscribe_data_consumer", "        if True:\n            result = self.validate_subscribe_data_consumer",
  "revert: subscribe validates and stores in two steps")
M("c16-remove-sub-unlocked", "C16", LD + "ldm_service.py",
  "        with self._lock:\n            if subscription in self.subscriptions:\n                self.subscriptions.remove(subscription)",
  "        if True:\n            if subscription in self.subscriptions:\n                self.subscriptions.remove(subscription)",
  "subscription removal without the service lock (ValueError when two removals race)")
M("c16-consumer-set-copy", "C16", LD + "ldm_service.py",
  "        with self._lock:\n            self.data_consumer_its_aid.add(its_aid)\n",
  "        consumers = set(self.data_consumer_its_aid)\n        consumers.add(its_aid)\n        self.data_consumer_its_aid = consumers\n",
  "consumer registry replaced by a copy (a concurrent registration/deregistration is lost)")
M("c16-remove-unlocked", "C16", LD + "dictionary_database.py",
  "        with self._lock:\n            for key, value in self.database.items():\n                if value == data_object:",
  "        if True:\n            for key, value in self.database.items():\n                if value == data_object:", "remove iterates the store without the lock")
M("c16-maint-thread-lock-order", "C16", LD + "ldm_maintenance_thread.py",
  "    def search_data_containers(self, data_request: RequestDataObjectsReq) -> tuple[dict, ...]:\n        with self.data_containers_lock:\n            search_result = super().search_data_containers(data_request)",
  "    def search_data_containers(self, data_request: RequestDataObjectsReq) -> tuple[dict, ...]:\n        with self.data_containers._lock, self.data_containers_lock:\n            search_result = super().search_data_containers(data_request)",
  "threaded maintenance takes the database lock before its own lock in search (others take them the other way round)")
M("c16-unsub-double-ack", "C16", LD + "ldm_service.py",
  "            if self.remove_subscription(subscription):\n                removed = True\n", "            self.remove_subscription(subscription)\n            removed = True\n",
  "revert: every concurrent unsubscribe of one subscription reports success")
M("c10-vam-gdt-wrap", "C10", "flexstack/facilities/vru_awareness_service/vam_transmission_management.py",
  "            or long_pause\n", "", "revert: elapsed time since the last VAM taken from wrapped generationDeltaTime only")


# ---------------------------------------------------------------- refreshed after later fixes moved the code
def _override(id, **kw):
    for m in MUTANTS:
        if m["id"] == id:
            m.update(kw)
            return
    raise KeyError(id)


def _drop(id):
    MUTANTS[:] = [m for m in MUTANTS if m["id"] != id]


_override("c05-learn-skip", file="flexstack/security/verify_service.py",
          old="                self.certificate_library.add_authorization_ticket(authorization_ticket)\n", new="")
_drop("c10-vam-min-revert")      # the repair it reverted was withdrawn (known finding C10:vam-closer-than-T_GenVamMin)
_override("c11-cluster-revert", file="flexstack/facilities/vru_awareness_service/vam_transmission_management.py",
          old="                params[\"vruClusterInformationContainer\"] = self._cluster_information_for_coder(\n                    cluster_info)",
          new="                params[\"vruClusterInformationContainer\"] = cluster_info")
_override("c15-cbf-timeout-nocheck",
          old="            timer = self._cbf_buffer.get(cbf_key)\n            if timer is None:\n                return  # duplicate already arrived and discarded us\n",
          new="            timer = self._cbf_buffer.get(cbf_key, object())\n")
_override("c15-cbf-timeout-check-unlocked",
          old="        with self._cbf_lock:\n            timer = self._cbf_buffer.get(cbf_key)\n            if timer is None:\n                return  # duplicate already arrived and discarded us\n",
          new="        if cbf_key not in self._cbf_buffer:\n            return\n        with self._cbf_lock:\n            timer = self._cbf_buffer.get(cbf_key, object())\n")
_override("c15-cbf-start-before-insert",
          old="            timer.cbf_token = token  # lets the expiry tell its own buffered copy from a later one\n            self._cbf_buffer[cbf_key] = timer\n        timer.start()",
          new="            timer.cbf_token = token  # lets the expiry tell its own buffered copy from a later one\n            timer.start()\n        with self._cbf_lock:\n            self._cbf_buffer[cbf_key] = timer")
_override("c16-remove-sub-unlocked",
          old="        with self._lock:\n            removed = subscription in self.subscriptions\n",
          new="        if True:\n            removed = subscription in self.subscriptions\n")
