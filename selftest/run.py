#!/usr/bin/env python3
"""Mutation self-test: apply realistic source mutants to a scratch copy of /repo/src and confirm that the quick check
of the property fires (exit 1 with a VIOLATION line).  The scratch copy lives under a temp dir outside /repo and
/verif and is removed afterwards.

usage: selftest/run.py [mutant-id-or-property ...]      (default: all)
Results are written to selftest/results.json.
"""
import json
import os
import shutil
import subprocess
import sys
import tempfile
import time

HERE = os.path.dirname(os.path.abspath(__file__))
VERIF = os.path.dirname(HERE)
sys.path.insert(0, HERE)
from mutants import MUTANTS  # noqa


def run_one(m, tier=None):
    tier = tier or m.get("tier", "quick")
    tmp = tempfile.mkdtemp(prefix="verif-mut-")
    try:
        shutil.copytree("/repo/src", os.path.join(tmp, "src"), ignore=shutil.ignore_patterns("__pycache__"))
        path = os.path.join(tmp, "src", m["file"])
        s = open(path).read()
        if s.count(m["old"]) < 1:
            return {"id": m["id"], "status": "stale-mutant (pattern not found)"}
        s = s.replace(m["old"], m["new"], m.get("count", 1))
        open(path, "w").write(s)
        env = dict(os.environ, VERIF_REPO=tmp, VERIF_EVIDENCE_SUFFIX=".mut")
        t0 = time.time()
        p = subprocess.run([os.path.join(VERIF, "check"), m["prop"], "--tier", tier], cwd=VERIF, env=env,
                           capture_output=True, text=True, timeout=3600)
        keys = [l.strip() for l in p.stdout.splitlines() if l.strip().startswith("key=")]
        return {"id": m["id"], "prop": m["prop"], "exit": p.returncode, "caught": p.returncode == 1,
                "keys": [k[:200] for k in keys[:4]], "wall_s": round(time.time() - t0, 1), "what": m["what"], "tier": tier}
    finally:
        shutil.rmtree(tmp, ignore_errors=True)


def main():
    sel = sys.argv[1:]
    todo = [m for m in MUTANTS if not sel or m["id"] in sel or m["prop"] in sel]
    results = []
    for m in todo:
        r = run_one(m)
        print(json.dumps(r)[:400], flush=True)
        results.append(r)
    path = os.path.join(HERE, "results.json")
    old = {}
    if os.path.exists(path):
        old = {r["id"]: r for r in json.load(open(path))}
    for r in results:
        old[r["id"]] = r
    json.dump(sorted(old.values(), key=lambda r: r["id"]), open(path, "w"), indent=1)
    missed = [r["id"] for r in results if not r.get("caught")]
    print("MISSED:", missed)
    # restore evidence of the unchanged tree is the caller's job (mutant runs write evidence/<id>.json.mut)
    return 1 if missed else 0


if __name__ == "__main__":
    sys.exit(main())
