"""C04 -- no received frame can stop or derail the receive path.

The REAL receive loops run: RawLinkLayer.receive in its own thread over a scripted socket (raw_link_layer.socket rebound by
the harness), and CV2XLinkLayer.callback_handler_loop in a thread over a queue (the missing cv2xlinklayer.so replaced by
a stub module).  Behind them a real GN router (security off / ENABLED) -> BTP router -> CA, DEN and VRU services, with and
without an LDM.  Streams of valid traffic are interleaved with bad frames: random bytes, grammar-based frames over the GN
header layout (reserved/unknown NH/HT/HST/ST, RHL > MHL, zero-sized areas, wrong version, truncation at every header
boundary), mutations of captured real packets (unsecured and secured), broken security envelopes, undecodable facility
payloads, own-MAC and foreign-unicast frames.
Monitors: (1) liveness -- the loop thread is alive and has consumed every frame; (2) twin-run equivalence -- a twin station
that receives the same stream WITHOUT the header-invalid frames must show the same outputs (link-layer sends, GN
indications, facility callbacks, LDM content) and the same state (location table, trust store) after every good frame.
"""
from __future__ import annotations

import queue
import random
import sys
import threading
import types

from vf.ref import wire as W

PROPERTY = "C04"
LEVEL = "exploration"
RULE = ("streams of good frames with bad frames at generated positions; distinct by hash of the frame list + configuration; non-trivial = at "
        "least one bad frame was followed by a good frame whose processing was compared with the twin's.")
ASSUMPTIONS = ["a frame whose GN headers the strict reference parser accepts is not 'bad' for the twin comparison: it is given to both twins (its payload may still be undecodable for the facility); only liveness is judged for it",
               "a wall-clock watchdog (60 s per frame) ends a run as inconclusive, never as a violation"]
REQUIRED_COUNTERS = ["frames_fed", "bad_frames_fed", "twin_comparisons", "good_after_bad_compared", "liveness_checks", "cv2x_loop_frames", "ignored_mac_frames", "good_frames_delivery_judged"]

OWN_MAC = bytes.fromhex("02aabbccdd01")
BCAST = b"\xff" * 6
LAT, LON = 415000000, 21000000


class ScriptedSocket:
    def __init__(self):
        self.q = queue.Queue()
        self.sent = []
        self.recv_calls = 0
        self.lock = threading.Lock()

    def bind(self, addr):
        pass

    def close(self):
        pass

    def send(self, data):
        self.sent.append(bytes(data))

    def recv(self, n):
        with self.lock:
            self.recv_calls += 1
        item = self.q.get()
        if item is None:
            raise OSError("script ended")
        return item


def socket_shim(sock):
    import socket as real
    return types.SimpleNamespace(AF_PACKET=getattr(real, "AF_PACKET", 17), SOCK_RAW=real.SOCK_RAW, htons=real.htons, socket=lambda *a, **k: sock)


class Node:
    """One complete receiving station behind a real receive loop."""

    def __init__(self, cfg, clock, pkinfo):
        from flexstack.linklayer import raw_link_layer as rll
        from flexstack.geonet.mib import MIB, GnSecurity, AreaForwardingAlgorithm
        from flexstack.geonet.router import Router as GNRouter
        from flexstack.btp.router import Router as BTPRouter
        from flexstack.geonet.gn_address import GNAddress, M, ST, MID
        from flexstack.geonet.position_vector import LongPositionVector, TST
        from flexstack.facilities.ca_basic_service.ca_basic_service import CooperativeAwarenessBasicService
        from flexstack.facilities.ca_basic_service.cam_transmission_management import VehicleData
        from flexstack.facilities.decentralized_environmental_notification_service.den_service import DecentralizedEnvironmentalNotificationService
        from flexstack.facilities.vru_awareness_service.vru_awareness_service import VRUAwarenessService
        from flexstack.facilities.vru_awareness_service.vam_transmission_management import DeviceDataProvider
        from vf import ldmharness as H
        from vf.vclock import tst_of
        self.cfg = cfg
        self.sock = ScriptedSocket()
        addr = GNAddress(m=M.GN_UNICAST, st=ST.PASSENGER_CAR, mid=MID(OWN_MAC))
        sec = pkinfo["G"].station(pkinfo["G"].ats[1]) if cfg["security"] else None
        self.sec = sec
        mib = MIB(itsGnLocalGnAddr=addr, itsGnSecurity=GnSecurity.ENABLED if cfg["security"] else GnSecurity.DISABLED,
                  itsGnAreaForwardingAlgorithm=AreaForwardingAlgorithm.SIMPLE)
        self.router = GNRouter(mib, sign_service=sec["sign"] if sec else None, verify_service=sec["verify"] if sec else None)
        self.router.ego_position_vector = LongPositionVector(gn_addr=addr, tst=TST(msec=tst_of(clock.now())), latitude=LAT, longitude=LON, pai=True)
        self.btp = BTPRouter(self.router)
        self.gn_ind = []
        self.cams = []
        self.generic = []
        self.ldm = H.make_ldm("Dictionary") if cfg["ldm"] else None
        vd = VehicleData(station_id=77, station_type=5)
        self.ca = CooperativeAwarenessBasicService(self.btp, vd, self.ldm)
        self.ca.cam_reception_management.add_application_callback(lambda cam: self.cams.append(cam["cam"]["generationDeltaTime"]))
        self.den = DecentralizedEnvironmentalNotificationService(self.btp, vd, self.ldm)
        self.vru = VRUAwarenessService(self.btp, DeviceDataProvider(station_id=77, station_type=1), self.ldm, cluster_support=cfg["cluster"])
        self.btp.register_indication_callback_btp(3000, lambda ind: self.generic.append(bytes(ind.data)))
        self.btp.freeze_callbacks()

        def gn_cb(ind):
            self.gn_ind.append((ind.packet_transport_type.header_type.value, bytes(ind.data)))
            self.btp.btp_data_indication(ind)
        self.router.register_indication_callback(gn_cb)
        self.loop_kind = cfg["loop"]
        self.raised_into_loop = []

        def guarded_indicate(packet, real=self.router.gn_data_indicate):
            # boundary recorder between the receive loop and the router: what the loop is handed back
            try:
                return real(packet)
            except NotImplementedError:
                raise                      # the loop's own designed discard path
            except BaseException as e:  # noqa
                import traceback
                tb = traceback.extract_tb(e.__traceback__)
                self.raised_into_loop.append(f"{type(e).__name__}@{tb[-1].name}")
                raise
        self.indicate = guarded_indicate
        if self.loop_kind == "raw":
            saved = rll.socket
            rll.socket = socket_shim(self.sock)
            try:
                self.ll = rll.RawLinkLayer("veth-verif", OWN_MAC, self.indicate)
            finally:
                rll.socket = saved
            self.thread = self.ll.receiving_thread
            self.router.link_layer = self.ll
        else:
            if "flexstack.linklayer.cv2xlinklayer" not in sys.modules:
                stub = types.ModuleType("flexstack.linklayer.cv2xlinklayer")
                stub.CV2XLinkLayer = type("CV2XLinkLayer", (), {})
                sys.modules["flexstack.linklayer.cv2xlinklayer"] = stub
            from flexstack.linklayer import cv2x_link_layer as cv
            cls = [v for k, v in vars(cv).items() if isinstance(v, type) and hasattr(v, "callback_handler_loop")][0]
            self.ll = object.__new__(cls)
            self.ll.receive_callback = self.indicate
            sent = self.sock.sent
            self.ll.link_layer = types.SimpleNamespace(send=lambda b: sent.append(bytes(b)))
            self.cvq = queue.Queue()
            self.fed = 0
            self.done = 0
            outer = self

            class CountingQueue:
                def get(self_q):
                    with outer.sock.lock:
                        outer.sock.recv_calls += 1
                    return outer.cvq.get()
            self.thread = threading.Thread(target=self.ll.callback_handler_loop, args=(CountingQueue(),), daemon=True)
            self.thread.start()
            self.router.link_layer = self.ll

    def feed(self, eth_frame, timeout=60.0):
        """Hand one link-layer frame to the real loop and wait until the loop asks for the next one.
        Returns 'ok', 'dead' or 'watchdog'."""
        import time
        # wait until the loop is parked in recv
        t0 = time.monotonic()
        while self.sock.recv_calls == 0 and self.thread.is_alive() and time.monotonic() - t0 < timeout:
            time.sleep(0.0005)
        with self.sock.lock:
            before = self.sock.recv_calls
        if self.loop_kind == "raw":
            self.sock.q.put(eth_frame)
        else:
            # the C-V2X wrapper strips its own 1-octet prefix in the other process; the handler loop gets the GN packet
            dst, src = eth_frame[0:6], eth_frame[6:12]
            self.cvq.put(eth_frame[14:])
        t0 = time.monotonic()
        while True:
            with self.sock.lock:
                now_calls = self.sock.recv_calls
            if now_calls > before:
                return "ok"
            if not self.thread.is_alive():
                return "dead"
            if time.monotonic() - t0 > timeout:
                return "watchdog"
            time.sleep(0)

    def stop(self):
        if self.loop_kind == "raw":
            self.sock.q.put(None)
        else:
            self.cvq.put(None)
        self.thread.join(timeout=2)

    def snapshot(self):
        lt = sorted((k.mid.mid.hex(), e.position_vector.tst.msec, e.position_vector.latitude, e.position_vector.longitude, bool(e.is_neighbour), bool(e.ls_pending))
                    for k, e in self.router.location_table.loc_t.items())
        ts = None
        if self.sec:
            lib = self.sec["lib"]
            ts = (sorted(k.hex() for k in lib.known_authorization_tickets), sorted(k.hex() for k in lib.known_authorization_authorities),
                  sorted(k.hex() for k in lib.known_root_certificates))
        ldm = None
        if self.ldm:
            ldm = sorted(repr(sorted((k, repr(v)) for k, v in rec["dataObject"].items() if k != "utc_timestamp"))[:400] for rec in self.ldm.ldm_maintenance.data_containers.all())
        return {"loct": lt, "trust": ts, "ldm": ldm, "cbf": len(self.router._cbf_buffer), "ls": sorted(k.mid.mid.hex() for k in self.router._ls_packet_buffers),
                "sn": self.router.sequence_number}

    def outputs(self):
        return {"sent": list(self.sock.sent), "gn_ind": list(self.gn_ind), "cams": list(self.cams), "generic": list(self.generic)}


# ---------------------------------------------------------------------------------------- frame material
def eth(gn, src=None, dst=BCAST):
    return dst + (src or bytes.fromhex("02eeeeee0009")) + b"\x89\x47" + gn


def payloads():
    """Real facility payloads (encoded by the repository's coders from its own white messages)."""
    from flexstack.facilities.ca_basic_service.cam_coder import CAMCoder
    from flexstack.facilities.ca_basic_service.cam_transmission_management import CooperativeAwarenessMessage
    from flexstack.facilities.vru_awareness_service.vam_coder import VAMCoder
    from flexstack.facilities.vru_awareness_service.vam_transmission_management import VAMMessage
    from flexstack.facilities.decentralized_environmental_notification_service.denm_coder import DENMCoder
    from flexstack.facilities.decentralized_environmental_notification_service.denm_transmission_management import DecentralizedEnvironmentalNotificationMessage
    cam = CooperativeAwarenessMessage()
    cam.cam["header"]["stationId"] = 4242
    cam.cam["cam"]["camParameters"]["basicContainer"]["referencePosition"]["latitude"] = LAT + 1000
    cam.cam["cam"]["camParameters"]["basicContainer"]["referencePosition"]["longitude"] = LON + 1000
    camb = CAMCoder().encode(cam.cam)
    vam = VAMMessage()
    vamd = vam.generate_white_vam_static() if hasattr(vam, "generate_white_vam_static") else vam.vam
    vamd["header"]["stationId"] = 4343
    vamb = VAMCoder().encode(vamd)
    den = DecentralizedEnvironmentalNotificationMessage()
    dd = den.denm if hasattr(den, "denm") else den.generate_white_denm()
    denb = DENMCoder().encode(dd)
    return {"cam": camb, "vam": vamb, "denm": denb}


def good_frames(clock, rng, pay, n, secured=None):
    """Header-valid frames from phantom sources (unsecured) or captured genuine secured frames."""
    from vf.gnharness import mid_of
    from vf.vclock import tst_of
    out = []
    tc0 = {"scf": 0, "co": 0, "id": 0}
    for i in range(n):
        if secured:
            out.append(("secured-genuine", eth(rng.choice(secured), src=bytes.fromhex("02eeeeee0001"))))
            continue
        srcid = rng.randrange(1, 4)
        pv = {"addr": {"m": 0, "st": 5, "mid": mid_of(100 + srcid)}, "tst": tst_of(clock.now()) + i, "lat": LAT + 500 * srcid, "lon": LON + 500, "pai": 1, "s": 100, "h": 900}
        k = rng.choice(("cam", "vam", "denm", "generic", "beacon", "gbc-cam", "guc-me"))
        if k == "beacon":
            g = W.enc_packet({"version": 1, "nh": 1, "lt_mult": 6, "lt_base": 2, "rhl": 1}, {"nh": 0, "ht": W.HT_BEACON, "hst": 0, "tc": tc0, "mobile": 1, "pl": 0, "mhl": 1}, {"so_pv": pv})
        elif k == "gbc-cam":
            body = W.enc_btp_b(2001, 0) + pay["cam"]
            g = W.enc_packet({"version": 1, "nh": 1, "lt_mult": 6, "lt_base": 2, "rhl": 2}, {"nh": 2, "ht": W.HT_GBC, "hst": 0, "tc": tc0, "mobile": 1, "pl": len(body), "mhl": 2},
                             {"sn": 1000 + i, "so_pv": pv, "area": {"lat": LAT, "lon": LON, "a": 800, "b": 800, "angle": 0}}, body)
        elif k == "guc-me":
            body = W.enc_btp_b(3000, 0) + b"unicast-%d" % i
            g = W.enc_packet({"version": 1, "nh": 1, "lt_mult": 6, "lt_base": 2, "rhl": 2}, {"nh": 2, "ht": W.HT_GUC, "hst": 0, "tc": tc0, "mobile": 1, "pl": len(body), "mhl": 2},
                             {"sn": 2000 + i, "so_pv": pv, "de_pv": {"addr": {"m": 0, "st": 5, "mid": OWN_MAC}, "tst": 1, "lat": LAT, "lon": LON}}, body)
        else:
            port = {"cam": 2001, "vam": 2018, "denm": 2002, "generic": 3000}[k]
            body = W.enc_btp_b(port, 0) + (pay[k] if k in pay else b"generic-%d" % i)
            g = W.enc_packet({"version": 1, "nh": 1, "lt_mult": 6, "lt_base": 2, "rhl": 1}, {"nh": 2, "ht": W.HT_TSB, "hst": 0, "tc": tc0, "mobile": 1, "pl": len(body), "mhl": 1},
                             {"so_pv": pv}, body)
        out.append((k, eth(g, src=mid_of(100 + srcid))))
    return out


NAMED_ST = tuple(range(12)) + (15,)      # EN 302 636-4-1 clause 6.3


def headers_valid(gn: bytes) -> bool:
    """Strict reference view: would a conformant receiver process the GN headers of this unsecured frame?"""
    try:
        p = W.dec_packet(gn)
    except Exception:  # noqa
        return False
    b, c = p["basic"], p["common"]
    if b["version"] != 1 or b["nh"] != 1:          # reserved bits are ignored on reception
        return False
    if c["ht"] not in (1, 2, 3, 4, 5, 6) or c["hst"] not in {1: (0,), 2: (0,), 3: (0, 1, 2), 4: (0, 1, 2), 5: (0, 1), 6: (0, 1)}[c["ht"]]:
        return False
    if c["nh"] not in (0, 1, 2, 3) or b["rhl"] > c["mhl"]:
        return False
    x = p["ext"]
    for pv in (x.get("so_pv"), x.get("de_pv")):
        if pv and (pv["addr"]["st"] not in NAMED_ST):
            return False
    if "req_addr" in x and x["req_addr"]["st"] not in NAMED_ST:
        return False
    if "area" in x:
        a = x["area"]
        if a["a"] == 0 or (c["hst"] != 0 and a["b"] == 0):
            return False
    return True


def bad_frames(rng, goods, pay, secured, clock):
    """(label, ethernet frame) candidates; header-valid ones are re-labelled by the caller."""
    from vf.gnharness import mid_of
    from vf.vclock import tst_of
    out = []
    tc0 = {"scf": 0, "co": 0, "id": 0}
    pv = {"addr": {"m": 0, "st": 5, "mid": mid_of(150)}, "tst": tst_of(clock.now()), "lat": LAT + 77, "lon": LON + 77, "pai": 1, "s": 0, "h": 0}
    bh = {"version": 1, "nh": 1, "lt_mult": 6, "lt_base": 2, "rhl": 1}
    for _ in range(6):
        out.append(("random-bytes", eth(bytes(rng.randrange(256) for _ in range(rng.choice((0, 1, 3, 4, 11, 12, 13, 40, 300, 1486)))))))
    # grammar based
    body = W.enc_btp_b(2001, 0) + pay["cam"]
    base = W.enc_packet(bh, {"nh": 2, "ht": W.HT_TSB, "hst": 0, "tc": tc0, "mobile": 1, "pl": len(body), "mhl": 1}, {"so_pv": pv}, body)
    for ver in (0, 2, 15):
        out.append(("version", eth(bytes([(ver << 4) | 1]) + base[1:])))
    for nh in (0, 3, 9, 15):
        out.append(("basic-nh-unknown", eth(bytes([0x10 | nh]) + base[1:])))
    for ht, hst in ((0, 0), (7, 0), (15, 15), (5, 2), (5, 15), (4, 3), (3, 7), (6, 2), (2, 0), (1, 5)):
        out.append(("ht-hst-reserved", eth(base[:5] + bytes([(ht << 4) | hst]) + base[6:])))
    for cnh in (4, 9, 15):
        out.append(("common-nh-unknown", eth(base[:4] + bytes([(cnh << 4)]) + base[5:])))
    out.append(("rhl>mhl", eth(base[:3] + b"\x09" + base[4:])))
    out.append(("st-reserved", eth(base[:12] + bytes([0x7C]) + base[13:])))
    for cut in (0, 1, 3, 4, 5, 11, 12, 13, 35, 36, 37, 39, 40, 41):
        out.append(("truncated", eth(base[:cut])))
    gb = W.enc_btp_b(2001, 0) + pay["cam"]
    for a, b, hst in ((0, 0, 0), (0, 5, 1), (5, 0, 1), (0, 0, 2), (5, 0, 2)):
        g = W.enc_packet({**bh, "rhl": 3}, {"nh": 2, "ht": rng.choice((W.HT_GBC, W.HT_GAC)), "hst": hst, "tc": tc0, "mobile": 1, "pl": len(gb), "mhl": 3},
                         {"sn": rng.randrange(65536), "so_pv": pv, "area": {"lat": LAT, "lon": LON, "a": a, "b": b, "angle": 0}}, gb)
        out.append(("zero-sized-area", eth(g)))
    for kind in ("gbc", "guc", "lsreq", "lsrep", "tsb"):
        ht, hst = {"gbc": (4, 0), "guc": (2, 0), "lsreq": (6, 0), "lsrep": (6, 1), "tsb": (5, 1)}[kind]
        x = {"sn": 5, "so_pv": pv, "area": {"lat": LAT, "lon": LON, "a": 9, "b": 9, "angle": 0}, "de_pv": {"addr": pv["addr"], "tst": 1, "lat": 1, "lon": 1}, "req_addr": pv["addr"]}
        g = W.enc_packet({**bh, "rhl": 2}, {"nh": 2, "ht": ht, "hst": hst, "tc": tc0, "mobile": 1, "pl": 0, "mhl": 2}, x)
        for cut in (12 + 1, 12 + 4, 12 + 27, len(g) - 1):
            out.append((f"truncated-ext[{kind}]", eth(g[:cut])))
    # facility payloads that cannot be decoded / BTP header truncated (headers are valid)
    for port in (2001, 2002, 2018):
        for junk in (b"", b"\x00", b"\xff" * 40, bytes(rng.randrange(256) for _ in range(25))):
            body = W.enc_btp_b(port, 0) + junk
            out.append((f"undecodable-payload[{port}]", eth(W.enc_packet(bh, {"nh": 2, "ht": W.HT_TSB, "hst": 0, "tc": tc0, "mobile": 1, "pl": len(body), "mhl": 1}, {"so_pv": pv}, body))))
        for k, goodp in pay.items():
            m = bytearray(goodp)
            m[rng.randrange(len(m))] ^= 1 << rng.randrange(8)
            body = W.enc_btp_b(port, 0) + bytes(m[:rng.choice((len(m), len(m) // 2, 3))])
            out.append((f"mutated-payload[{port}]", eth(W.enc_packet(bh, {"nh": 2, "ht": W.HT_TSB, "hst": 0, "tc": tc0, "mobile": 1, "pl": len(body), "mhl": 1}, {"so_pv": pv}, body))))
    # a damaged frame of a sender the station also hears good frames from: its source time stamp is far ahead (flipped high
    # bit, sender clock fault) and its payload is junk; the GN headers are valid, so both twins see it -- what follows from
    # that sender must still be handed up
    for srcid in (1, 2, 3):
        ahead = rng.choice((3000, 3_600_000, (1 << 30), (1 << 31) - 5000))
        pvk = {"addr": {"m": 0, "st": 5, "mid": mid_of(100 + srcid)}, "tst": (tst_of(clock.now()) + ahead) % (1 << 32), "lat": LAT + 500 * srcid, "lon": LON + 500, "pai": 1, "s": 100, "h": 900}
        body = W.enc_btp_b(2001, 0) + bytes(rng.randrange(256) for _ in range(25))
        out.append(("undecodable-payload-of-a-known-sender[source-time-ahead]",
                    eth(W.enc_packet(bh, {"nh": 2, "ht": W.HT_TSB, "hst": 0, "tc": tc0, "mobile": 1, "pl": len(body), "mhl": 1}, {"so_pv": pvk}, body), src=mid_of(100 + srcid))))
    for n in (0, 1, 3):
        out.append(("btp-header-truncated", eth(W.enc_packet(bh, {"nh": 2, "ht": W.HT_TSB, "hst": 0, "tc": tc0, "mobile": 1, "pl": n, "mhl": 1}, {"so_pv": pv}, b"\x07\xd1\x00"[:n]))))
    # mutations of real packets
    for lab, g in goods:
        gn = g[14:]
        for _ in range(3):
            m = bytearray(gn)
            for _k in range(rng.choice((1, 1, 2, 8))):
                m[rng.randrange(min(len(m), 60))] ^= 1 << rng.randrange(8)
            out.append(("bitflip-of-real-packet", eth(bytes(m), src=g[6:12])))
        out.append(("truncated-real-packet", eth(gn[:rng.randrange(len(gn))], src=g[6:12])))
    # security envelopes
    for junk in (b"", b"\x03", b"\x03\x81\x00", bytes(rng.randrange(256) for _ in range(50)), b"\x03\x81\x00\x40\x03\x80" + b"\xff" * 30):
        out.append(("secured-envelope-garbage", eth(bytes([0x12, 0, 0x1A, 1]) + junk)))
    for s in secured or []:
        for _ in range(4):
            m = bytearray(s)
            m[rng.randrange(4, len(m))] ^= 1 << rng.randrange(8)
            out.append(("secured-bitflip", eth(bytes(m))))
        out.append(("secured-truncated", eth(s[:rng.randrange(4, len(s))])))
    return out


def diff_outputs(a, b):
    return [k for k in a if a[k] != b[k]]


def run_case(c, res, pk):
    from vf.vclock import VClock
    rng = random.Random(c["seed"])
    clock = VClock().install()
    clock.install_ldm()
    nodes = []
    try:
        pay = c["_pay"]
        secured = c["_secured"] if c["security"] else None
        goods = good_frames(clock, rng, pay, c["n_good"], secured)
        cands = bad_frames(rng, goods, pay, c["_secured"], clock)
        rng.shuffle(cands)
        cands = cands[:c["n_bad"]]
        stream = [("good", lab, f) for lab, f in goods]
        for lab, f in cands:
            gn = f[14:]
            hv = headers_valid(gn) if (len(gn) > 0 and (gn[0] & 0x0F) == 1) else False
            if c["security"] and hv:
                hv = False           # an unsecured frame is to be dropped by an ENABLED receiver: bad by construction
            if len(gn) > 4 and (gn[0] & 0x0F) == 2 and (gn[0] >> 4) == 1:
                # secured: authentic (decodes to what an honest station signed) -> both twins; anything else is bad
                from checks.c03_secured_delivery import decode_sec, signed_view
                md = decode_sec(gn)
                hv = md is not None and any(signed_view(md) == signed_view(decode_sec(s_)) for s_ in c["_secured"]) and gn[3] <= 255
            kind = "headervalid" if hv else "bad"
            stream.insert(rng.randrange(len(stream) + 1), (kind, lab, f))
        # MAC-level frames that must be ignored
        if c["loop"] == "raw":
            for lab, f in goods[:2]:
                stream.insert(rng.randrange(len(stream) + 1), ("ignored", "own-mac-source", BCAST + OWN_MAC + f[12:]))
                stream.insert(rng.randrange(len(stream) + 1), ("ignored", "foreign-unicast", bytes.fromhex("02deadbeef99") + f[6:]))
        A = Node(c, clock, pk)
        nodes.append(A)
        T = Node(c, clock, pk)
        nodes.append(T)
        bad_seen = 0
        ctx_stream = []
        for (kind, lab, f) in stream:
            ctx_stream.append((kind, lab, len(f)))
            ctx = {"cfg": {k: v for k, v in c.items() if not k.startswith("_")}, "stream": ctx_stream[-25:], "frame": f[:200]}
            res.count("frames_fed")
            before = (A.snapshot(), A.outputs()) if kind in ("bad", "ignored") else None
            n_ind_before = len(A.gn_ind)
            r = A.feed(f)
            res.count("liveness_checks")
            if c["loop"] == "cv2x":
                res.count("cv2x_loop_frames")
            if r == "watchdog":
                res.inconc("wall-clock watchdog while feeding a frame")
                return
            if r == "dead":
                # find what killed it: replay the frame on a fresh router call to name the exception (diagnosis only)
                exc = "?"
                try:
                    T.router.gn_data_indicate(f[14:])
                except BaseException as e:  # noqa
                    import traceback
                    tb = traceback.extract_tb(e.__traceback__)
                    exc = f"{type(e).__name__}@{tb[-1].name}"
                res.violation(f"C04:receive-loop-terminated[{c['loop']}][{lab.split('[')[0]}][{exc}]", f"the {c['loop']} receive loop died on a '{lab}' frame ({exc})", ctx)
                return
            if A.raised_into_loop:
                exc = A.raised_into_loop[-1]
                res.violation(f"C04:error-raised-into-receive-loop[{lab.split('[')[0]}][{exc}]", f"'{lab}' frame: {exc} propagated out of Router.gn_data_indicate into the {c['loop']} loop", ctx)
                A.raised_into_loop.clear()
            if kind in ("bad", "ignored"):
                bad_seen += 1
                res.count("bad_frames_fed" if kind == "bad" else "ignored_mac_frames")
                after = (A.snapshot(), A.outputs())
                if after != before:
                    what = [k for k in after[0] if after[0][k] != before[0][k]] + diff_outputs(after[1], before[1])
                    res.violation(f"C04:{'bad' if kind == 'bad' else 'ignored'}-frame-had-an-effect[{lab.split('[')[0]}][{','.join(what)}]",
                                  f"'{lab}' frame changed {what}", ctx)
                continue
            # (packets with a sequence number are judged only while no header-valid mutation of a real packet -- which may carry
            # the same source and sequence number and so makes the genuine copy a duplicate -- has been fed)
            mutated_seen = any(k_ == "headervalid" and "real-packet" in l_ for (k_, l_, _) in ctx_stream[:-1])
            if kind == "good" and (lab in ("cam", "vam", "denm", "generic") or (lab in ("gbc-cam", "guc-me") and not mutated_seen)):
                # absolute oracle: a well-formed frame addressed to / covering this station is handed up once, whatever came before
                res.count("good_frames_delivery_judged")
                n_now = len(A.gn_ind)
                if n_now != n_ind_before + 1:
                    prior = sorted({l_.split("[")[0] for (k_, l_, _) in ctx_stream[:-1] if k_ != "good"})
                    tag = "[after-a-frame-with-source-time-ahead]" if any("source-time-ahead" in l_ for (_, l_, _) in ctx_stream[:-1]) else ""
                    res.violation(f"C04:good-frame-not-handed-up-exactly-once[{lab}]{tag}", f"'{lab}' frame: {n_now - n_ind_before} indications; earlier non-good frames: {prior}", ctx)
            r2 = T.feed(f)
            if r2 == "watchdog":
                res.inconc("wall-clock watchdog while feeding a frame to the twin")
                return
            if r2 != "ok":
                res.violation(f"C04:receive-loop-terminated[{c['loop']}][{lab.split('[')[0]}][twin]", f"twin loop: {r2} on '{lab}'", ctx)
                return
            res.count("twin_comparisons")
            if bad_seen:
                res.count("good_after_bad_compared")
            sa, st = A.snapshot(), T.snapshot()
            oa, ot = A.outputs(), T.outputs()
            if sa != st or oa != ot:
                what = [k for k in sa if sa[k] != st[k]] + diff_outputs(oa, ot)
                res.violation(f"C04:good-frame-processed-differently-after-bad-frames[{','.join(what)}]", f"after '{lab}': station and twin differ in {what}", ctx)
                return
    finally:
        for n in nodes:
            try:
                n.stop()
            except Exception:  # noqa
                pass
        clock.heap.clear()
        clock.uninstall()


def run_shard(spec, res):
    from vf.vclock import VClock
    from vf import pki
    from checks.c03_secured_delivery import emit_genuine
    rng = random.Random(spec["seed"])
    clock = VClock().install()
    try:
        G = pki.PKI(clock.now(), n_at=3, aa_psids=(36, 37, 638, 99), at_psids=(36, 37, 638, 99), name="c04")
        pay = payloads()
        secured = [f for _, f in emit_genuine(clock, G, res, pay)]
    finally:
        clock.uninstall()
    for k in range(spec["cases"]):
        c = {"seed": rng.randrange(1 << 40), "security": rng.random() < 0.35, "ldm": rng.random() < 0.5, "cluster": rng.random() < 0.5,
             "loop": "cv2x" if rng.random() < 0.25 else "raw", "n_good": rng.randrange(4, 12), "n_bad": rng.randrange(5, 30), "_pay": pay, "_secured": secured}
        run_case(c, res, {"G": G})
        res.case((c["seed"], c["security"], c["ldm"], c["loop"]))
        if k == 0:
            res.sample({k2: v for k2, v in c.items() if not k2.startswith("_")})


def shards(tier, seed):
    if tier == "thorough":
        return [{"seed": seed * 97 + i, "cases": 900} for i in range(16)]
    return [{"seed": seed * 97 + i, "cases": 14} for i in range(8)]


def replay(case, res):
    run_shard({"seed": 0, "cases": 25}, res)
