"""C08 -- the location table reflects the newest valid information about each station.

  O  TST ordering: all operator results of the real TST class on a boundary lattice and random pairs, against the
     serial-number order on 32-bit milliseconds (irreflexive, antisymmetric, agrees with real time for |d| < 2^31)
  H  histories: a real router receives reference-built beacons/SHB/TSB/GBC/GAC/GUC/LS packets from several phantom
     sources under a virtual clock; after every processed packet the real location table (get_entry/get_neighbours)
     is compared with a small reference model (newest PV by serial order, expiry at tst+lifetime, neighbour rules).
"""
from __future__ import annotations

import random

from vf.ref import wire as W

PROPERTY = "C08"
LEVEL = "exploration"
RULE = ("O: ordered pairs (a,b) of 32-bit timestamps from a boundary lattice (0, 1, 2^31-1, 2^31, 2^31+1, 2^32-1 ... and offsets) plus "
        "random pairs with random small/large differences, distinct by (a,b); H: packet/clock histories, distinct by hash of the "
        "event list; non-trivial = at least one table observation was compared with the model.")
ASSUMPTIONS = ["expiry is judged outside +-1 s of tst+lifetime and only at observation points that follow a processed packet (purging is lazy by design)",
               "timestamp differences of exactly 2^31 ms are not judged"]
REQUIRED_COUNTERS = ["H.location_service_lookups_started", "O.pairs", "H.observations", "H.pv_compared", "H.neighbour_compared", "H.expiry_checked_gone", "H.expiry_checked_present"]

M32 = 1 << 32
HALF = 1 << 31


def serial_gt(a, b):
    d = (a - b) % M32
    return 0 < d < HALF


def run_o(spec, res):
    from flexstack.geonet.position_vector import TST
    rng = random.Random(spec["seed"])
    lattice = set()
    for base in (0, HALF, M32):
        for off in range(-3, 4):
            lattice.add((base + off) % M32)
    for base in (1000, 86400000, HALF // 2, 3 * HALF // 2):
        lattice.update(((base + o) % M32 for o in (-1, 0, 1)))
    lattice = sorted(lattice)
    pairs = [(a, b) for a in lattice for b in lattice]
    for _ in range(spec["random"]):
        a = rng.randrange(M32)
        r = rng.random()
        if r < 0.4:
            d = rng.choice((1, 2, 999, 1000, 20000, 60000)) * rng.choice((1, -1))
        elif r < 0.7:
            d = rng.randrange(1, HALF) * rng.choice((1, -1))
        elif r < 0.8:
            d = rng.choice((HALF - 1, HALF + 1, -(HALF - 1), -(HALF + 1)))
        else:
            d = rng.randrange(M32)
        pairs.append((a, (a + d) % M32))
    for a, b in pairs:
        A, B = TST(msec=a), TST(msec=b)
        gt, lt, ge, le, eq, ne = A > B, A < B, A >= B, A <= B, A == B, A != B
        res.count("O.pairs")
        case = {"part": "O", "a": a, "b": b}
        d = (a - b) % M32
        if a == b:
            if gt or lt:
                res.violation("C08:tst-order-not-irreflexive", f"TST({a}) >/< itself", case)
            if not (eq and ge and le) or ne:
                res.violation("C08:tst-equality-inconsistent", f"a == b == {a}: eq={eq} ge={ge} le={le} ne={ne}", case)
        else:
            if gt and (B > A):
                res.violation("C08:tst-order-not-antisymmetric", f"{a} > {b} and {b} > {a}", case)
            if d != HALF:
                want = serial_gt(a, b)
                if gt != want:
                    res.violation("C08:tst-order-disagrees-with-real-time", f"TST({a}) > TST({b}) is {gt}; serial order says {want} (difference {d if d < HALF else d - M32} ms)", case)
                if lt != (not want):
                    res.violation("C08:tst-lt-inconsistent", f"TST({a}) < TST({b}) is {lt}, want {not want}", case)
            if ge != gt or le != (not gt) or eq or not ne:
                res.violation("C08:tst-operators-inconsistent", f"a={a} b={b}: gt={gt} ge={ge} le={le} eq={eq} ne={ne}", case)
            if lt != (B > A) and d != HALF:
                res.violation("C08:tst-lt-not-converse-of-gt", f"a={a} b={b}", case)
        # subtraction is the forward distance mod 2^32
        if (A - B) != d:
            res.violation("C08:tst-difference-wrong", f"TST({a}) - TST({b}) = {A - B}, want {d}", case)
        res.case(("O", a, b))
    # transitivity inside a half window
    for _ in range(spec["random"] // 4):
        a = rng.randrange(M32)
        d1 = rng.randrange(1, HALF // 2)
        d2 = rng.randrange(1, HALF // 2)
        A, B, C = TST(msec=a), TST(msec=(a + d1) % M32), TST(msec=(a + d1 + d2) % M32)
        res.count("O.triples")
        if not (B > A and C > B and C > A):
            res.violation("C08:tst-order-not-transitive-in-half-window", f"{a}, +{d1}, +{d2}", {"part": "O3", "a": a, "d1": d1, "d2": d2})
    res.sample({"part": "O", "lattice": lattice[:10], "random_pairs": spec["random"]})


# ------------------------------------------------------------------------------------------ H
KINDS = ("beacon", "shb", "tsb", "gbc", "gac", "guc_to_me", "guc_fwd", "ls_request", "ls_reply_fwd", "ls_reply_to_me")
SINGLE_HOP = ("beacon", "shb")


def wrap_t0(k=36, before_s=3.0):
    """A UTC instant whose TST is `before_s` seconds before the 2^32 wrap."""
    return 1072915200 - 5 + (k * M32 + M32 - int(before_s * 1000)) / 1000.0


def gen_h(rng, n_events):
    life = rng.choice((20, 20, 5, 60))
    t0 = rng.choice((None, None, wrap_t0(36, rng.choice((1.5, 3.0, 10.0, 25.0)))))
    ev = []
    nsrc = rng.randrange(1, 5)
    sn = {i: rng.choice((0, 1, 65530, rng.randrange(65536))) for i in range(nsrc + 1)}
    npk = 0
    for _ in range(n_events):
        r = rng.random()
        if r < 0.3:
            ev.append({"e": "adv", "dt": rng.choice((0.001, 0.05, 0.4, 1.0, 1.5, 3.0, life - 1.5, life + 1.5, 2.5 * life, rng.uniform(0, life * 1.2)))})
            continue
        if r < 0.34:
            # the station itself looks a source up (unicast request to it): an unknown source gets a placeholder entry with a
            # pending location service, whatever arrives from that source meanwhile
            ev.append({"e": "ls_start", "src": rng.randrange(nsrc)})
            continue
        if r < 0.38 and npk:
            # exact byte replay of an earlier packet (what a duplicate on the air looks like)
            ev.append({"e": "replay", "of": rng.randrange(npk)})
            continue
        src = rng.randrange(nsrc) if rng.random() > 0.07 else "self"
        kind = rng.choice(KINDS)
        skew = rng.choice((0, 0, 1, -1, 250, -250, 999, 1001, 3000, -3000, -5000, 4999, rng.randrange(-5000, 5001)))
        if rng.random() < 0.06:
            skew = -int((life + rng.choice((-3, 3, 30))) * 1000)      # stale position
        key = src if src != "self" else nsrc
        if kind not in SINGLE_HOP:
            sn[key] = (sn[key] + 1) % 65536
            use_sn = sn[key]
        else:
            use_sn = 0
        npk += 1
        ev.append({"e": "pkt", "src": src, "kind": kind, "skew_ms": skew, "sn": use_sn,
                   "lat": rng.randrange(-900000000, 900000001), "lon": rng.randrange(-1800000000, 1800000001),
                   "s": rng.randrange(0, 5000), "h": rng.randrange(3600)})
    return {"part": "H", "life": life, "t0": t0, "events": ev}


def build_packet(kind, pv, sn, me_addr, my_lat, my_lon):
    from vf.gnharness import mid_of
    other = {"m": 0, "st": 5, "mid": mid_of(200)}
    tc0 = {"scf": 0, "co": 0, "id": 0}
    bh = {"version": 1, "nh": 1, "lt_mult": 6, "lt_base": 2, "rhl": 1 if kind in SINGLE_HOP else 3}
    body = b"\x07\xd1\x00\x00data"
    if kind == "beacon":
        return W.enc_packet(bh, {"nh": 0, "ht": W.HT_BEACON, "hst": 0, "tc": tc0, "mobile": 1, "pl": 0, "mhl": 1}, {"so_pv": pv})
    if kind == "shb":
        return W.enc_packet(bh, {"nh": 2, "ht": W.HT_TSB, "hst": 0, "tc": tc0, "mobile": 1, "pl": len(body), "mhl": 1}, {"so_pv": pv}, body)
    if kind == "tsb":
        return W.enc_packet(bh, {"nh": 2, "ht": W.HT_TSB, "hst": 1, "tc": tc0, "mobile": 1, "pl": len(body), "mhl": 3}, {"sn": sn, "so_pv": pv}, body)
    if kind in ("gbc", "gac"):
        return W.enc_packet(bh, {"nh": 2, "ht": W.HT_GBC if kind == "gbc" else W.HT_GAC, "hst": 0, "tc": tc0, "mobile": 1, "pl": len(body), "mhl": 3},
                            {"sn": sn, "so_pv": pv, "area": {"lat": my_lat, "lon": my_lon, "a": 500, "b": 500, "angle": 0}}, body)
    if kind in ("guc_to_me", "guc_fwd"):
        de = {"addr": me_addr if kind == "guc_to_me" else other, "tst": pv["tst"], "lat": my_lat, "lon": my_lon}
        return W.enc_packet(bh, {"nh": 2, "ht": W.HT_GUC, "hst": 0, "tc": tc0, "mobile": 1, "pl": len(body), "mhl": 3},
                            {"sn": sn, "so_pv": pv, "de_pv": de}, body)
    if kind == "ls_request":
        return W.enc_packet(bh, {"nh": 0, "ht": W.HT_LS, "hst": 0, "tc": tc0, "mobile": 1, "pl": 0, "mhl": 3}, {"sn": sn, "so_pv": pv, "req_addr": other})
    if kind == "ls_reply_to_me":
        de = {"addr": me_addr, "tst": pv["tst"], "lat": my_lat, "lon": my_lon}
        return W.enc_packet(bh, {"nh": 0, "ht": W.HT_LS, "hst": 1, "tc": tc0, "mobile": 1, "pl": 0, "mhl": 3}, {"sn": sn, "so_pv": pv, "de_pv": de})
    if kind == "ls_reply_fwd":
        de = {"addr": other, "tst": pv["tst"], "lat": my_lat, "lon": my_lon}
        return W.enc_packet(bh, {"nh": 0, "ht": W.HT_LS, "hst": 1, "tc": tc0, "mobile": 1, "pl": 0, "mhl": 3}, {"sn": sn, "so_pv": pv, "de_pv": de})
    raise ValueError(kind)


def run_h_case(c, res):
    from vf.gnharness import World, mid_of
    from vf.stations import gn_addr
    from vf.vclock import tst_of
    from flexstack.geonet.mib import AreaForwardingAlgorithm
    life = c["life"]
    my_lat, my_lon = 415000000, 21000000
    with World(c["t0"]) as w:
        A = w.add("A", mid_of(1), lat=my_lat, lon=my_lon, ports=(2001,),
                  mib_over={"itsGnLifetimeLocTE": life, "itsGnAreaForwardingAlgorithm": AreaForwardingAlgorithm.SIMPLE})
        me = {"m": 0, "st": 5, "mid": mid_of(1)}
        model = {}      # src -> dict(pv, t_pos, nb, dpl, notes)
        sent = []       # (src, kind, sn, pv, t_pos, bytes) of every fresh packet, for replays
        table = A.router.location_table
        for i, ev in enumerate(c["events"]):
            if ev["e"] == "adv":
                w.clock.advance(ev["dt"])
                continue
            now = w.clock.now()
            if ev["e"] == "ls_start":
                from vf.gnharness import gn_request
                try:
                    A.router.gn_data_request(gn_request("guc", b"\x07\xd1\x00\x00lookup", dest=gn_addr(mid_of(100 + ev["src"])), hop=3))
                    w.settle()
                    res.count("H.location_service_lookups_started")
                except Exception as e:  # noqa
                    res.violation(f"C08:unicast-request-raises-{type(e).__name__}", f"{e!r}", {**{k: v for k, v in c.items() if k != "events"}, "events": c["events"][:i + 1]})
                continue
            if ev["e"] == "replay":
                src, kind, sn_, pv, t_pos, pkt = sent[ev["of"]]
                fresh = False
            else:
                src, kind, sn_ = ev["src"], ev["kind"], ev["sn"]
                mid = mid_of(1) if src == "self" else mid_of(100 + src)
                t_pos = now + ev["skew_ms"] / 1000.0
                pv = {"addr": {"m": 0, "st": 7 if src == "self" else 5, "mid": mid}, "tst": tst_of(t_pos), "lat": ev["lat"], "lon": ev["lon"],
                      "pai": 1, "s": ev["s"], "h": ev["h"]}
                pkt = build_packet(kind, pv, sn_, me, my_lat, my_lon)
                sent.append((src, kind, sn_, pv, t_pos, pkt))
                fresh = True
            had_entry = src != "self" and table.get_entry(gn_addr(mid_of(100 + src))) is not None
            nerr = len(w.ether.errors)
            w.ether.inject("A", pkt)
            w.settle()
            ctx = {**{k: v for k, v in c.items() if k != "events"}, "events": c["events"][:i + 1]}
            if len(w.ether.errors) > nerr:
                e = w.ether.errors[-1][3]
                res.violation(f"C08:valid-packet-raises-{type(e).__name__}[{kind}]", f"{kind} from {src}: {e!r}", ctx)
                continue
            # ---- model update
            reached_table = False
            if src != "self":
                m = model.get(src)
                multi = kind not in SINGLE_HOP
                expired_before = m is not None and (now - (m["t_pos"] + life)) > 0
                if m is not None and abs(now - (m["t_pos"] + life)) <= 1.0:
                    # a packet of this source arrives inside the +-1 s expiry band: whether the old entry (flag, DPL,
                    # PV) was purged first is not decidable at the LDM/GN clock resolution -> stop judging this source
                    # until its entry has unambiguously expired
                    m["unjudged"] = True
                    expired_before = False
                if expired_before:
                    stale = had_entry          # the real entry outlived its lifetime because nothing triggered a purge
                    m = None
                else:
                    stale = False
                dup = multi and m is not None and sn_ in m["dpl"]
                if stale and multi and not fresh:
                    dup = True                  # a verbatim replay after an unpurged expiry: not judged either way
                if not dup:
                    reached_table = True
                    if m is None:
                        m = {"pv": pv, "t_pos": t_pos, "nb": False, "dpl": [], "stale_origin": stale, "tst0": False, "lost_after": None, "unjudged": False}
                        model[src] = m
                    elif serial_gt(pv["tst"], m["pv"]["tst"]):
                        m["pv"], m["t_pos"] = pv, t_pos
                    if m["pv"]["tst"] == 0:
                        m["tst0"] = True
                    if multi:
                        m["dpl"].append(sn_)
                        m["dpl"] = m["dpl"][-8:]
                    else:
                        m["nb"] = True
                    m["last_kind"] = kind
            # ---- observation (after a processed packet)
            res.count("H.observations")
            # state walker (read-only): GNAddress hashes (m, st, mid) but compares MID only, so look at every key
            if table.get_entry(gn_addr(mid_of(1))) is not None or any(k.mid.mid == mid_of(1) for k in list(table.loc_t)):
                res.violation("C08:own-address-entered", "the station's own GN address has a location table entry", ctx)
            nbs = {e.position_vector.gn_addr.mid.mid for e in table.get_neighbours()}
            for s, m in model.items():
                smid = mid_of(100 + s)
                ent = table.get_entry(gn_addr(smid))
                if ent is not None and not ent._pv_received:
                    ent = None          # the placeholder of a location-service lookup (no valid position vector) carries no information about S
                age = now - m["t_pos"]
                tag = "[stored-tst-was-0]" if m["tst0"] else ("[after-unpurged-expiry]" if m["stale_origin"] else "")
                if abs(age - life) <= 1.0 or m["unjudged"]:
                    res.count("H.in_band_unjudged")
                    continue
                if age < life:
                    res.count("H.expiry_checked_present")
                    if ent is None:
                        ahead = "tst-ahead-of-clock" if age < 0 else ("sub-second" if age < 1 else "aged")
                        res.violation(f"C08:entry-missing-before-lifetime[{ahead}]{tag}", f"source {s}: PV age {age:.3f} s < lifetime {life} s but no entry", {**ctx, "_desc_src": s})
                        continue
                    epv = ent.position_vector
                    res.count("H.pv_compared")
                    got = (epv.tst.msec, epv.latitude, epv.longitude, epv.s, epv.h)
                    want = (m["pv"]["tst"], m["pv"]["lat"], m["pv"]["lon"], m["pv"]["s"], m["pv"]["h"])
                    if got != want:
                        newer = serial_gt(got[0], want[0])
                        res.violation(f"C08:entry-pv-not-newest[{'stored-is-newer-than-any-received' if newer else 'stored-is-older-or-other'}]{tag}",
                                      f"source {s}: table has {got}, newest received is {want}", {**ctx, "_desc_src": s})
                    res.count("H.neighbour_compared")
                    is_nb = smid in nbs
                    if is_nb != m["nb"]:
                        if m["nb"]:
                            if m["lost_after"] is None:
                                m["lost_after"] = m.get("last_kind")
                            res.violation(f"C08:neighbour-lost-although-beacon-or-shb-processed[first-seen-after={m['lost_after']}]{tag}",
                                          f"source {s}: not a neighbour although a beacon/SHB was processed and the entry has not expired", {**ctx, "_desc_src": s})
                        else:
                            res.violation(f"C08:neighbour-without-beacon-or-shb{tag}", f"source {s}: neighbour although known only through multi-hop packets", {**ctx, "_desc_src": s})
                elif reached_table:
                    res.count("H.expiry_checked_gone")
                    if ent is not None:
                        res.violation(f"C08:entry-present-after-lifetime{tag}", f"source {s}: PV age {age:.3f} s > lifetime {life} s, entry still there after a packet was processed", {**ctx, "_desc_src": s})


def run_h(spec, res):
    rng = random.Random(spec["seed"])
    for i in range(spec["cases"]):
        c = gen_h(rng, rng.randrange(4, spec["maxlen"]))
        run_h_case(c, res)
        res.case(repr(c))
        if i == 0:
            res.sample({**c, "events": c["events"][:6]})


def shards(tier, seed):
    if tier == "thorough":
        return ([{"part": "O", "seed": seed * 17 + i, "random": 1_200_000} for i in range(16)] +
                [{"part": "H", "seed": seed * 19 + i, "cases": 3800, "maxlen": 60} for i in range(16)])
    return ([{"part": "O", "seed": seed * 17 + i, "random": 50_000} for i in range(4)] +
            [{"part": "H", "seed": seed * 19 + i, "cases": 75, "maxlen": 40} for i in range(8)])


def run_shard(spec, res):
    (run_o if spec["part"] == "O" else run_h)(spec, res)


def replay(case, res):
    if case.get("part") == "H":
        run_h_case(case, res)
    elif case.get("part") == "O":
        from flexstack.geonet.position_vector import TST
        a, b = case["a"], case["b"]
        if (TST(msec=a) > TST(msec=b)) != serial_gt(a, b):
            res.violation("C08:tst-order-disagrees-with-real-time", f"{a} vs {b}", case)
