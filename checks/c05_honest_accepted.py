"""C05 -- honestly signed messages are accepted by every station sharing the trust root.

2-6 real stations (GN router with itsGnSecurity ENABLED + SignService/VerifyService/CertificateLibrary, own ticket under a
common root and AA) exchange CAM- and VAM-profile SHBs at 1-10 Hz, DENM-profile GBCs and generic-profile SHBs in virtual
time; stations join at arbitrary phases of the others' certificate-inclusion timers; receivers know only root+AA or are
pre-loaded with peer tickets.  Monitors: (a) acceptance oracle -- every honest message must be indicated, payload
unchanged, at once when it carries the certificate or the ticket is known, otherwise within two further messages of the
sender once the receiver's own next CAM (carrying the P2PCD request) has reached it; (b) profile acceptor over the decoded
EtsiTs103097Data of every emitted packet (TS 103 097 clause 7.1: signer choice vs the 1 s rule / peer request, DENM always
certificate, mandatory and forbidden headerInfo fields).
"""
from __future__ import annotations

import random

PROPERTY = "C05"
LEVEL = "exploration"
RULE = ("scenarios = (number of stations, join times, pre-loaded tickets, per-station emission schedules of CAM/VAM/DENM/generic messages, "
        "positions); distinct by hash of the scenario; non-trivial = at least one digest-signed message of an unknown ticket was followed through "
        "the peer-to-peer certificate request and at least one emitted envelope was decoded and judged.")
ASSUMPTIONS = ["all stations share root and AA (the property's configurations)",
               "P2PCD progress is counted in messages of the unknown sender after the receiver's own next CAM has been delivered to it",
               "the certificate-inclusion rule is judged in the 'must include' direction with 1 ms slack on the 1 s boundary"]
REQUIRED_COUNTERS = ["crowd_scenarios", "must_carry_certificate_on_peer_request_checked", "messages_emitted", "envelopes_decoded", "must_accept_checked", "accepted", "p2pcd_followed", "digest_of_unknown_ticket_seen", "must_carry_certificate_checked"]

LAT, LON = 415000000, 21000000
PSID = {"cam": 36, "vam": 638, "denm": 37, "generic": 99}


def gen(rng):
    n = rng.randrange(2, 7)
    st = []
    for i in range(n):
        st.append({"join": 0.0 if i < 2 else rng.choice((0.0, 0.35, 1.2, 2.7, 4.05)), "preloaded": rng.random() < 0.3,
                   "dlat": rng.randrange(-2000, 2000), "dlon": rng.randrange(-2000, 2000)})
    ev = []
    for i in range(n):
        period = rng.choice((0.1, 0.2, 0.5, 1.0, 1.0))
        t = st[i]["join"] + rng.uniform(0.01, period)
        while t < 7.0:
            ev.append({"t": round(t, 4), "s": i, "kind": "cam"})
            t += period
        if rng.random() < 0.5:
            t = st[i]["join"] + rng.uniform(0.05, 1.0)
            while t < 7.0:
                ev.append({"t": round(t, 4), "s": i, "kind": "vam"})
                t += rng.choice((0.5, 1.0, 2.0))
        for _ in range(rng.randrange(0, 3)):
            ev.append({"t": round(st[i]["join"] + rng.uniform(0.1, 6.5), 4), "s": i, "kind": rng.choice(("denm", "generic"))})
    ev.sort(key=lambda e: (e["t"], e["s"]))
    return {"stations": st, "events": ev}


def gen_crowd(rng):
    """Directed class: more senders than any small bounded table holds.  Ten or more stations exchange digest-signed CAMs; one
    station joins late knowing none of their tickets and has to learn ALL of them through the certificate request mechanism."""
    n = rng.randrange(10, 13)
    st = [{"join": 0.0, "preloaded": False, "dlat": rng.randrange(-2000, 2000), "dlon": rng.randrange(-2000, 2000)} for _ in range(n - 1)]
    st.append({"join": rng.choice((1.2, 1.45, 1.7)), "preloaded": False, "dlat": 0, "dlon": 0})
    ev = []
    for i in range(n):
        # 5 Hz: two further messages of a sender take 0.4 s, well inside its 1 s certificate period -- a ticket that is never
        # asked for stays unknown for longer than the two exchanges the property grants
        period = 0.2
        t = st[i]["join"] + rng.uniform(0.01, period)
        while t < 3.6:
            ev.append({"t": round(t, 4), "s": i, "kind": "cam"})
            t += period
    ev.sort(key=lambda e: (e["t"], e["s"]))
    return {"stations": st, "events": ev, "crowd": True}


def run_case(c, W, res):
    from vf import pki
    from vf.gnharness import gn_request, area, mid_of
    from vf.ether import Ether
    from vf.stations import Station
    from vf.vclock import VClock
    from flexstack.geonet.mib import GnSecurity, AreaForwardingAlgorithm
    from flexstack.geonet.service_access_point import CommonNH
    from flexstack.security.security_profiles import SecurityProfile
    from flexstack.security.certificate import SECURITY_CODER
    from dataclasses import replace
    clock = VClock().install()
    try:
        # honest stations hold VALID tickets of every whole-second Duration unit, some of them well into their validity
        # period (round 7, C05-agent7: a wrong unit factor shortens the window only for tickets that are not fresh)
        VAL = (None, (20 * 3600, ("sixtyHours", 2)), (90 * 3600, ("hours", 100)), (50 * 3600, ("minutes", 6000)), (5000, ("seconds", 60000)))
        nst = len(c["stations"])
        G = pki.PKI(clock.now(), n_at=nst, aa_psids=(36, 37, 638, 99), at_psids=(36, 37, 638, 99), name="c05",
                    at_validity=[VAL[(i + nst) % len(VAL)] for i in range(nst)])
        ether = Ether(clock)
        t0 = clock.now()
        S = {}
        secs = {}
        knows = {}         # (receiver, sender) -> bool
        last_cert = {}     # sender -> time its certificate was last included in a CAM/VAM
        asked = {}         # sender -> True when a peer asked for its certificate
        pend = {}          # (receiver, sender) -> dict(t_fail, t_req, after)
        emitted = []
        tagno = 0
        n = len(c["stations"])
        h3 = {i: G.ats[i].as_hashedid8()[-3:] for i in range(n)}

        def join(i):
            sd = c["stations"][i]
            known = [pki.strip(G.ats[j]) for j in range(n) if j != i] if sd["preloaded"] else []
            sec = G.station(G.ats[i], known_ats=known)
            secs[i] = sec
            S[i] = Station(ether, f"S{i}", mid_of(i + 1), lat=LAT + sd["dlat"], lon=LON + sd["dlon"], clock=clock, sign=sec["sign"], verify=sec["verify"],
                           ports=(2001, 2018, 2002, 3000), mib_over={"itsGnSecurity": GnSecurity.ENABLED, "itsGnAreaForwardingAlgorithm": AreaForwardingAlgorithm.SIMPLE})
            for j in range(n):
                if j != i:
                    knows[(i, j)] = sd["preloaded"]
                    knows.setdefault((j, i), c["stations"][j]["preloaded"])
        for i in range(n):
            if c["stations"][i]["join"] == 0.0:
                join(i)
        for ev in c["events"]:
            t = t0 + ev["t"]
            for i in range(n):
                if i not in S and t0 + c["stations"][i]["join"] <= t:
                    clock.run_until(t0 + c["stations"][i]["join"])
                    join(i)
            clock.run_until(t)
            s = ev["s"]
            if s not in S:
                continue
            kind = ev["kind"]
            tagno += 1
            port = {"cam": b"\x07\xd1", "vam": b"\x07\xe2", "denm": b"\x07\xd2", "generic": b"\x0b\xb8"}[kind]
            payload = port + b"\x00\x00" + b"%s-%d-%d|" % (kind.encode(), s, tagno)
            prof = {"cam": SecurityProfile.COOPERATIVE_AWARENESS_MESSAGE, "vam": SecurityProfile.VRU_AWARENESS_MESSAGE,
                    "denm": SecurityProfile.DECENTRALIZED_ENVIRONMENTAL_NOTIFICATION_MESSAGE, "generic": SecurityProfile.NO_SECURITY}[kind]
            req = gn_request("gbc" if kind == "denm" else "shb", payload, nh=CommonNH.BTP_B, ar=area(LAT, LON, 1500, 1500, 0) if kind == "denm" else None, hop=2)
            req = replace(req, security_profile=prof, its_aid=PSID[kind])
            n0 = len(ether.wire)
            ind0 = {j: len(S[j].gn_ind) for j in S}
            ctx = {"scenario": c, "event": ev}
            try:
                S[s].router.gn_data_request(req)
            except Exception as e:  # noqa
                res.violation(f"C05:honest-request-raises-{type(e).__name__}[{kind}]", f"{e!r}", ctx)
                continue
            frames = [p for (_, _, snd, p) in ether.wire[n0:] if snd == f"S{s}"]
            res.count("messages_emitted")
            if not frames:
                res.violation(f"C05:nothing-emitted[{kind}]", "secured request produced no packet", ctx)
                continue
            frame = frames[0]
            # ------------------------------------------------ profile acceptor
            carries_cert = None
            try:
                if (frame[0] & 0x0F) != 2:
                    raise ValueError("basic header NH is not 'secured packet'")
                d = SECURITY_CODER.decode_etsi_ts_103097_data_signed(frame[4:])
                sd = d["content"][1]
                hi = sd["tbsData"]["headerInfo"]
                signer = sd["signer"]
                carries_cert = signer[0] == "certificate"
                res.count("envelopes_decoded")
                if d["protocolVersion"] != 3 or d["content"][0] != "signedData":
                    res.violation(f"C05:profile[{kind}]:not-signed-data-v3", f"{d['protocolVersion']} {d['content'][0]}", ctx)
                if hi.get("psid") != PSID[kind]:
                    res.violation(f"C05:profile[{kind}]:psid", f"{hi.get('psid')}", ctx)
                if "generationTime" not in hi:
                    res.violation(f"C05:profile[{kind}]:generationTime-missing", "", ctx)
                else:
                    want_gt = int((clock.now() - pki.ITS_EPOCH + 5) * 1000) * 1000
                    if abs(hi["generationTime"] - want_gt) > 2_000_000:
                        res.violation(f"C05:profile[{kind}]:generationTime-not-now", f"{hi['generationTime']} vs {want_gt}", ctx)
                forbidden = {"cam": ("generationLocation", "expiryTime", "p2pcdLearningRequest", "missingCrlIdentifier", "encryptionKey"),
                             "vam": ("generationLocation", "expiryTime", "p2pcdLearningRequest", "missingCrlIdentifier", "encryptionKey"),
                             "denm": ("expiryTime", "p2pcdLearningRequest", "missingCrlIdentifier", "encryptionKey", "inlineP2pcdRequest", "requestedCertificate"),
                             "generic": ("p2pcdLearningRequest", "missingCrlIdentifier")}[kind]
                for f in forbidden:
                    if f in hi:
                        res.violation(f"C05:profile[{kind}]:forbidden-header-field[{f}]", "", ctx)
                if kind == "denm":
                    if "generationLocation" not in hi:
                        res.violation("C05:profile[denm]:generationLocation-missing", "", ctx)
                    if signer[0] != "certificate":
                        res.violation("C05:profile[denm]:signer-not-certificate", f"{signer[0]}", ctx)
                if signer[0] == "certificate":
                    if len(signer[1]) != 1 or signer[1][0] != G.ats[s].certificate:
                        res.violation(f"C05:profile[{kind}]:signer-certificate-not-own-ticket", "", ctx)
                elif signer[0] == "digest":
                    if signer[1] != G.ats[s].as_hashedid8():
                        res.violation(f"C05:profile[{kind}]:signer-digest-not-own-ticket", "", ctx)
                else:
                    res.violation(f"C05:profile[{kind}]:signer-choice", f"{signer[0]}", ctx)
                if sd["tbsData"]["payload"]["data"]["content"][0] != "unsecuredData":
                    res.violation(f"C05:profile[{kind}]:payload-not-unsecuredData", "", ctx)
                if kind in ("cam", "vam"):
                    since = clock.now() - last_cert.get(s, -1e9)
                    must = since > 1.001 or asked.get(s, False)
                    if must:
                        res.count("must_carry_certificate_checked")
                        if asked.get(s) and since <= 1.001:
                            res.count("must_carry_certificate_on_peer_request_checked")
                        if not carries_cert:
                            why = "peer-request" if asked.get(s) and since <= 1.001 else "more-than-1s"
                            res.violation(f"C05:profile[{kind}]:digest-although-certificate-due[{why}]", f"{since:.3f} s since the certificate was last included, peer request pending: {asked.get(s, False)}", ctx)
                    if carries_cert:
                        last_cert[s] = clock.now()
                        asked[s] = False
            except Exception as e:  # noqa
                res.violation(f"C05:emitted-envelope-undecodable[{kind}]", f"{e!r}", ctx)
                continue
            # ------------------------------------------------ delivery
            ether.drain()
            emitted.append((clock.now(), s, kind, carries_cert))
            for r in list(S):
                if r == s:
                    continue
                new = S[r].gn_ind[ind0.get(r, 0):]
                mine = [ind for (_, ind) in new if bytes(ind.data) == payload]
                accepted = len(mine) >= 1
                key = (r, s)
                if carries_cert or knows.get(key):
                    res.count("must_accept_checked")
                    if not accepted:
                        errs = [repr(e[3]) for e in ether.errors[-3:]]
                        res.violation(f"C05:honest-message-not-accepted[{kind}][{'carries-certificate' if carries_cert else 'ticket-known'}]",
                                      f"S{r} did not deliver message of S{s} at t={ev['t']}; recent receive-path exceptions {errs}", ctx)
                    else:
                        res.count("accepted")
                        if len(mine) > 1:
                            res.violation(f"C05:delivered-more-than-once[{kind}]", "", ctx)
                    if carries_cert and accepted:
                        knows[key] = True
                        pend.pop(key, None)
                else:
                    res.count("digest_of_unknown_ticket_seen")
                    if accepted:
                        res.count("accepted")
                        knows[key] = True     # learnt some other way (e.g. from a DENM): fine
                        pend.pop(key, None)
                    else:
                        p = pend.setdefault(key, {"t_fail": clock.now(), "t_req": None, "after": 0})
                        if p["t_req"] is not None and kind in ("cam", "vam"):
                            p["after"] += 1
                            if p["after"] >= 2:
                                res.violation("C05:unknown-ticket-not-learnt-within-two-exchanges",
                                              f"S{r} still rejects S{s} although its own CAM with the certificate request reached S{s} and S{s} has sent {p['after']} CAM/VAMs since", ctx)
                # a CAM of s that reaches r may carry a certificate request for r's ticket
                if kind == "cam" and accepted and "inlineP2pcdRequest" in hi and h3[r] in hi["inlineP2pcdRequest"]:
                    asked[r] = True
                # s's CAM is the vehicle of s's own pending requests
                if kind == "cam" and accepted:
                    for (rr, ss), p in pend.items():
                        # the receiver's own next CAM has reached the unknown sender: from now on the bound runs,
                        # whatever that CAM carried (a missing certificate request is the sender-side defect to catch)
                        if rr == s and ss == r and p["t_req"] is None:
                            p["t_req"] = clock.now()
                            res.count("p2pcd_followed")
                            if "inlineP2pcdRequest" in hi and h3[r] in hi["inlineP2pcdRequest"]:
                                res.count("p2pcd_request_seen_on_wire")
        clock.heap.clear()
    finally:
        clock.uninstall()


def run_shard(spec, res):
    rng = random.Random(spec["seed"])
    for k in range(spec["cases"]):
        c = gen_crowd(rng) if spec.get("crowd") and k == 0 else gen(rng)
        if c.get("crowd"):
            res.count("crowd_scenarios")
        run_case(c, None, res)
        res.case(repr(c))
        if k == 0:
            res.sample({"stations": c["stations"], "events": c["events"][:10]})


def shards(tier, seed):
    if tier == "thorough":
        return [{"seed": seed * 89 + i, "cases": 320, "crowd": i < 8} for i in range(16)]
    return [{"seed": seed * 89 + i, "cases": 5} for i in range(12)] + [{"seed": seed * 97 + i, "cases": 1, "crowd": True} for i in range(2)]


def replay(case, res):
    run_case(case["scenario"], None, res)
