"""C14 -- LDM subscriptions notify exactly the matching data, at the requested cadence.

A real LDM (reactive service: attendance is triggered by additions; plus explicit attendance passes as the threaded service
makes them) is driven by interleavings of subscribe / unsubscribe / register / deregister / add / delete / clock advance with
1-4 consumers and overlapping subscriptions.  Every attendance pass is observed (call/return hook on attend_subscriptions),
every callback invocation is recorded with its arguments and virtual time, and a reference subscription model decides, per
attendance and per subscription, whether a notification must, may or must not happen and with which objects in which order.
"""
from __future__ import annotations

import random

from checks.c13_ldm_queries import ref_match, check_order, norm

PROPERTY = "C14"
LEVEL = "exploration"
RULE = ("histories of 10..120 operations over 4 consumer ids and up to 8 overlapping subscriptions (types, filters, multiplicity 0..5, notification "
        "interval 1 ms..5 s or none, 0..2 order keys); distinct by hash of the operation list; non-trivial = at least one attendance pass "
        "with an active subscription was judged.")
ASSUMPTIONS = ["cadence is compared at whole seconds: an attendance less than 1 s from the interval boundary may go either way",
               "the first notification may come at the first attendance after subscribing or one interval later (the statement speaks of the previous notification)",
               "objects have validity >> history length, so expiry plays no role here (C12 decides it)"]
REQUIRED_COUNTERS = ["attendances", "must_notify_checked", "must_not_notify_checked", "callbacks_compared", "after_unsubscribe_checked", "invalid_requests_checked",
                     "after_unsubscribe_inside_attendance_checked", "attendances_with_an_addition_from_a_callback", "notification_spacings_checked"]

CONSUMERS = (2, 16, 1, 14)
TYPES = (2, 1, 16)


def gen(rng, maxlen):
    ops = []
    n = rng.randrange(10, maxlen)
    for _ in range(n):
        r = rng.random()
        if r < 0.10:
            ops.append({"op": "reg_c", "app": rng.choice(CONSUMERS)})
        elif r < 0.14:
            ops.append({"op": "dereg_c", "app": rng.choice(CONSUMERS)})
        elif r < 0.30:
            flt = None
            if rng.random() < 0.6:
                flt = {"s1": {"path": rng.choice(("header.stationId", "cam.generationDeltaTime", "cam.camParameters.lowFrequencyContainer", "denm.management.stationType")),
                              "op": rng.choice(("==", "!=", ">", "<", ">=", "<=")), "ref": rng.choice((3, 10, 25, 40, 30000))}, "logic": None, "s2": None}
                if rng.random() < 0.3:
                    flt["logic"] = rng.choice(("and", "or"))
                    flt["s2"] = {"path": "header.protocolVersion", "op": rng.choice(("==", "!=")), "ref": 2}
            order = None
            if rng.random() < 0.4:
                order = [{"attr": a, "desc": rng.random() < 0.5} for a in rng.sample(["timestamp", "stationId", "latitude", "stationType", "stationType"], rng.randrange(1, 3))]
                if len(order) == 2 and order[0]["attr"] == order[1]["attr"]:
                    order = order[:1]
            types_ = list(rng.choice(((2,), (1,), (2, 16), (2, 1, 16))))
            if order and set(types_) <= {2, 16} and rng.random() < 0.5:
                # an attribute every selected object has, at a path that depends on the message type
                order = [{"attr": "generationDeltaTime", "desc": rng.random() < 0.5}] + order[:1]
            ops.append({"op": "sub", "app": rng.choice(CONSUMERS), "types": types_, "filter": flt,
                        "mult": rng.choice((None, 0, 1, 1, 2, 3, 5)), "interval_ms": rng.choice((None, 1, 1, 500, 1000, 2000, 5000)), "order": order,
                        "invalid": rng.choice((None,) * 5 + ("type", "priority", "interval", "multiplicity")),
                        # what the consumer's callback does when it is invoked (re-entrant use of IF.LDM.4 from a notification)
                        "cb_action": rng.choice((None,) * 6 + ("unsub_self", "unsub_other", "unsub_other", "dereg_self", "dereg_other", "add_once", "add_once"))})
        elif r < 0.36:
            ops.append({"op": "unsub", "pick": rng.randrange(1 << 16), "bogus": rng.random() < 0.15})
        elif r < 0.70:
            ops.append({"op": "add", "type": rng.choice(TYPES), "seed": rng.randrange(1 << 30)})
        elif r < 0.74:
            ops.append({"op": "del", "pick": rng.randrange(1 << 16)})
        elif r < 0.90:
            ops.append({"op": "adv", "dt": rng.choice((0.1, 0.4, 0.6, 1.0, 1.0, 2.0, 3.0, 6.0))})
        else:
            ops.append({"op": "attend"})
    return {"ops": ops}


def gen_cadence(rng, maxlen):
    """Directed class: a subscription with multiplicity >= 2 and an interval of several seconds while matching objects
    arrive one by one, attendance passes in between -- the interval elapses before the multiplicity is met."""
    app = rng.choice(CONSUMERS)
    ops = [{"op": "reg_c", "app": app},
           {"op": "sub", "app": app, "types": [2], "filter": None, "mult": rng.choice((2, 2, 3, 4)), "interval_ms": rng.choice((2000, 3000, 5000)),
            "order": None, "invalid": None}]
    for _ in range(rng.randrange(6, 16)):
        r = rng.random()
        if r < 0.35:
            ops.append({"op": "add", "type": 2, "seed": rng.randrange(1 << 30)})
        elif r < 0.7:
            ops.append({"op": "adv", "dt": rng.choice((1.0, 1.0, 2.0, 3.0, 4.0, 6.0))})
        elif r < 0.95:
            ops.append({"op": "attend"})
        else:
            ops.append({"op": "del", "pick": rng.randrange(1 << 16)})
    return {"ops": ops}


def gen_reentrant(rng, maxlen):
    """Directed class: several subscriptions that all match, whose callbacks unsubscribe / deregister themselves or each
    other while an attendance pass is under way (the pass works on a snapshot of the subscription list)."""
    apps = rng.sample(CONSUMERS, rng.randrange(1, 4))
    ops = [{"op": "reg_c", "app": a} for a in apps]
    ops.append({"op": "add", "type": 2, "seed": rng.randrange(1 << 30)})
    for _ in range(rng.randrange(2, 6)):
        ops.append({"op": "sub", "app": rng.choice(apps), "types": [2], "filter": None, "mult": rng.choice((None, 1)),
                    "interval_ms": rng.choice((None, None, 1, 1000)), "order": None, "invalid": None,
                    "cb_action": rng.choice((None, None, "unsub_self", "unsub_other", "unsub_other", "unsub_next", "unsub_next", "dereg_self", "dereg_other", "add_once", "add_once"))})
    for _ in range(rng.randrange(3, 10)):
        r = rng.random()
        if r < 0.3:
            ops.append({"op": "add", "type": 2, "seed": rng.randrange(1 << 30)})
        elif r < 0.6:
            ops.append({"op": "adv", "dt": rng.choice((1.0, 2.0, 3.0))})
        elif r < 0.9:
            ops.append({"op": "attend"})
        else:
            ops.append({"op": "sub", "app": rng.choice(apps), "types": [2], "filter": None, "mult": None, "interval_ms": rng.choice((None, 1)), "order": None,
                        "invalid": None, "cb_action": rng.choice((None, "unsub_other", "unsub_next"))})
    return {"ops": ops}


def run_case(c, res):
    from vf.vclock import VClock
    from vf import ldmharness as H
    from flexstack.facilities.local_dynamic_map.ldm_classes import (
        RegisterDataProviderReq, RegisterDataConsumerReq, DeregisterDataConsumerReq, AddDataProviderReq, DeleteDataProviderReq,
        SubscribeDataobjectsReq, UnsubscribeDataConsumerReq, TimestampIts, TimeValidity, AccessPermission, Filter, FilterStatement,
        ComparisonOperators, LogicalOperators, OrderTupleValue, OrderingDirection)
    opmap = {"==": 0, "!=": 1, ">": 2, "<": 3, ">=": 4, "<=": 5, "like": 6, "notlike": 7}
    clock = VClock().install()
    clock.install_ldm()
    try:
        ldm = H.make_ldm("Dictionary")
        i3, i4, svc = ldm.if_ldm_3, ldm.if_ldm_4, ldm.ldm_service
        i3.register_data_provider(RegisterDataProviderReq(2, (AccessPermission.CAM,), TimeValidity(1000)))
        consumers = set()
        subs = {}            # key -> dict(op, sid, last, notified, active, log)
        store = {}           # id -> rec
        attend_log = []
        real_attend = svc.attend_subscriptions

        midpass_adds = []     # event numbers of additions made from inside a callback
        seq = [0]            # one event counter for callbacks, ends of subscriptions and attendance passes

        def tick():
            seq[0] += 1
            return seq[0]

        def hooked_attend():
            t_its = H.its_now(clock)
            mark = {k: len(s["log"]) for k, s in subs.items()}
            q0 = tick()
            real_attend()
            attend_log.append((t_its, mark, q0, tick()))

        def end_sub(s, why):
            if s["active"]:
                s["active"] = False
                s["ended_by"] = why
                s["ended_seq"] = tick()

        def do_cb_action(key, action):
            """The consumer reacts to a notification by using IF.LDM.4 again (from inside the attendance pass)."""
            me = subs.get(key)
            if me is None or action is None:
                return
            res.count(f"callback_actions[{action}]")
            if action == "add_once":
                # the consumer publishes into the LDM from inside its own notification (a warning application reacting to a
                # CAM): with the reactive service the addition re-enters the attendance of all subscriptions
                if me.get("added"):
                    return
                me["added"] = True
                rng_ = random.Random(len(store) * 7919 + len(subs))
                msg = H.message(rng_, 2)
                now_ = H.its_now(clock)
                req = AddDataProviderReq(2, TimestampIts(now_ - 100), H.location(H.LDM_LAT + 20000, H.LDM_LON + 20000), msg, TimeValidity(100000))
                r = i3.add_provider_data(req)
                if r.data_object_id >= 0:
                    store[r.data_object_id] = {"rec": norm(req.to_dict()), "type": 2}
                midpass_adds.append(tick())
                return
            if action in ("unsub_self", "unsub_other", "unsub_next"):
                if action == "unsub_self":
                    tgt = me if me["active"] else None
                else:
                    keys = list(subs)
                    later = [k2 for k2 in keys[keys.index(key) + 1:] if subs[k2]["active"]]
                    others = [k2 for k2 in keys if k2 != key and subs[k2]["active"]]
                    pool = later if action == "unsub_next" else others
                    tgt = subs[pool[0]] if pool else None
                if tgt is None:
                    return
                r = i4.unsubscribe_data_consumer(UnsubscribeDataConsumerReq(tgt["op"]["app"], tgt["sid"]))
                if int(r.result) == 0:
                    end_sub(tgt, "unsubscription")
                    res.count("ended_inside_attendance")
                else:
                    res.violation("C14:valid-unsubscribe-refused[from-callback]", f"{r.result!s}", {"ops": c["ops"]})
            else:
                app = me["op"]["app"]
                if action == "dereg_other":
                    oth = [a for a in consumers if a != app]
                    if not oth:
                        return
                    app = oth[0]
                if app in consumers:
                    i4.deregister_data_consumer(DeregisterDataConsumerReq(app))
                    consumers.discard(app)
                    for s2 in subs.values():
                        if s2["op"]["app"] == app and s2["active"]:
                            end_sub(s2, "deregistration")
                            res.count("ended_inside_attendance")
        svc.attend_subscriptions = hooked_attend
        judged_upto = 0
        nsub = 0
        for step, op in enumerate(c["ops"]):
            ctx = {"ops": c["ops"][:step + 1]}
            now = H.its_now(clock)
            k = op["op"]
            try:
                if k == "reg_c":
                    r = i4.register_data_consumer(RegisterDataConsumerReq(op["app"], (AccessPermission(op["app"]),), H.area()))
                    if r.result == 0:
                        consumers.add(op["app"])
                elif k == "dereg_c":
                    i4.deregister_data_consumer(DeregisterDataConsumerReq(op["app"]))
                    if op["app"] in consumers:
                        consumers.discard(op["app"])
                        for s in subs.values():
                            if s["op"]["app"] == op["app"] and s["active"]:
                                end_sub(s, "deregistration")
                elif k == "sub":
                    nsub += 1
                    f = None
                    if op["filter"]:
                        s1 = op["filter"]["s1"]
                        fs1 = FilterStatement(s1["path"], ComparisonOperators(opmap[s1["op"]]), s1["ref"])
                        if op["filter"]["s2"]:
                            s2 = op["filter"]["s2"]
                            f = Filter(fs1, LogicalOperators(0 if op["filter"]["logic"] == "and" else 1), FilterStatement(s2["path"], ComparisonOperators(opmap[s2["op"]]), s2["ref"]))
                        else:
                            f = Filter(fs1)
                    order = tuple(OrderTupleValue(o["attr"], OrderingDirection(1 if o["desc"] else 0)) for o in op["order"]) if op["order"] else None
                    types, prio, mult = tuple(op["types"]), nsub % 200, op["mult"]
                    nt = None if op["interval_ms"] is None else TimestampIts(op["interval_ms"])
                    inv = op["invalid"]
                    if inv == "type":
                        types = types + (77,)
                    elif inv == "priority":
                        prio = 256 + nsub
                    elif inv == "interval":
                        nt = TimestampIts(4398046511104 + nsub)
                    elif inv == "multiplicity":
                        mult = 256 + nsub
                    log = []
                    key = f"s{nsub}"

                    def cb(resp, log=log, key=key, action=op.get("cb_action")):
                        log.append((H.its_now(clock), [norm(x) for x in resp.data_objects], resp.application_id, int(resp.result), tick()))
                        do_cb_action(key, action)
                    req = SubscribeDataobjectsReq(application_id=op["app"], data_object_type=types, priority=prio, filter=f, notify_time=nt,
                                                  multiplicity=mult, order=order)
                    r = i4.subscribe_data_consumer(req, cb)
                    want_code = 0
                    if op["app"] not in consumers:
                        want_code = 1
                    elif inv == "type":
                        want_code = 2
                    elif inv == "priority":
                        want_code = 3
                    elif inv == "interval":
                        want_code = 5
                    elif inv == "multiplicity":
                        want_code = 6
                    if want_code:
                        res.count("invalid_requests_checked")
                        if int(r.result) != want_code:
                            res.violation(f"C14:invalid-subscription-wrong-result[expected={want_code}]", f"got {r.result!s}", ctx)
                        if int(r.result) == 0:
                            subs[key] = {"op": op, "sid": r.subscription_id, "last": now, "notified": 0, "active": False, "log": log, "ended_by": "never-valid"}
                    else:
                        if int(r.result) != 0:
                            res.violation("C14:valid-subscription-refused", f"{r.result!s} {r.error_message}", ctx)
                        else:
                            if any(s["sid"] == r.subscription_id and s["active"] for s in subs.values()):
                                # identical request from the same consumer: the identifier is shared; treat as one subscription
                                res.count("duplicate_subscription_ids")
                                i4.unsubscribe_data_consumer(UnsubscribeDataConsumerReq(op["app"], r.subscription_id))
                                for s in subs.values():
                                    if s["sid"] == r.subscription_id:
                                        end_sub(s, "unsubscription")
                            else:
                                subs[key] = {"op": op, "sid": r.subscription_id, "last": now, "notified": 0, "active": True, "log": log, "ended_by": None}
                elif k == "unsub":
                    act = [s for s in subs.values() if s["active"]]
                    if op["bogus"] or not act:
                        app = next(iter(consumers), 2)
                        r = i4.unsubscribe_data_consumer(UnsubscribeDataConsumerReq(app, 123456789))
                        if int(r.result) == 0:
                            res.violation("C14:unsubscribe-of-unknown-id-accepted", "", ctx)
                    else:
                        s = act[op["pick"] % len(act)]
                        r = i4.unsubscribe_data_consumer(UnsubscribeDataConsumerReq(s["op"]["app"], s["sid"]))
                        if int(r.result) != 0:
                            res.violation("C14:valid-unsubscribe-refused", f"{r.result!s}", ctx)
                        else:
                            end_sub(s, "unsubscription")
                elif k == "add":
                    rng = random.Random(op["seed"])
                    msg = H.message(rng, op["type"])
                    req = AddDataProviderReq(2, TimestampIts(now - rng.randrange(0, 900)), H.location(H.LDM_LAT + rng.randrange(3000, 40000), H.LDM_LON + rng.randrange(3000, 40000)),
                                             msg, TimeValidity(100000))
                    # the store changes before a reactive attendance can run: model first
                    r = i3.add_provider_data(req)        # a reactive attendance pass may run inside, after the insertion
                    if r.data_object_id >= 0:
                        store[r.data_object_id] = {"rec": norm(req.to_dict()), "type": op["type"]}
                elif k == "del":
                    if store:
                        oid = sorted(store)[op["pick"] % len(store)]
                        i3.delete_provider_data(DeleteDataProviderReq(2, oid, TimestampIts(now)))
                        store.pop(oid)
                elif k == "adv":
                    clock.advance(op["dt"])
                elif k == "attend":
                    svc.attend_subscriptions()
            except Exception as e:  # noqa
                res.violation(f"C14:operation-raises-{type(e).__name__}[{k}]", f"{e!r}", ctx)
                return
            # ---------------------------------------------------------------- judge new attendance passes
            while judged_upto < len(attend_log):
                t_att, mark, q0, q1 = attend_log[judged_upto]
                judged_upto += 1
                res.count("attendances")
                objs_now = list(store.values())
                # a pass is 'dirty' when the store changed while it was under way or when another pass was nested in it / it was
                # nested in another one (additions made from inside callbacks re-enter the attendance)
                dirty = any(q0 < a_ < q1 for a_ in midpass_adds) or any((q0 < p_[2] < q1) or (p_[2] < q0 < p_[3]) for p_ in attend_log if p_[2] != q0)
                if dirty:
                    res.count("attendances_with_an_addition_from_a_callback")
                for key, s in subs.items():
                    # entries appended during this pass = those between mark and the next pass' mark (or now)
                    new = [e_ for e_ in s["log"] if q0 < e_[4] < q1]       # the callbacks that ran between begin and end of this pass
                    sop = s["op"]
                    if not s["active"] and s.get("ended_seq", 0) > q1:
                        pass        # ended only after this pass had finished (a later pass of the same operation): live throughout this one
                    elif not s["active"]:
                        res.count("after_unsubscribe_checked")
                        eq = s.get("ended_seq", 0)
                        if q0 < eq < q1:
                            # ended by a callback while this pass was under way: notifications before that instant are
                            # legitimate, any later one is not
                            res.count("after_unsubscribe_inside_attendance_checked")
                            late = [e for e in new if e[4] > eq]
                            if late:
                                res.violation(f"C14:callback-after-{s['ended_by']}[ended-by-a-callback-of-the-same-attendance]",
                                              f"subscription {key} of consumer {sop['app']} was notified after its {s['ended_by']} had been acknowledged inside the same attendance pass", ctx)
                            if new and not late:
                                s["notified"] += 1
                        elif new:
                            res.violation(f"C14:callback-after-{s['ended_by']}", f"subscription {key} of consumer {sop['app']} was notified after its {s['ended_by']}", ctx)
                        continue
                    if not s["active"] and not dirty:
                        continue
                    if dirty:
                        # the store changed while the pass was under way (and a nested pass ran inside it): what each pass
                        # should have seen is ambiguous -- only the cadence rule below and the after-end rule are judged
                        if new:
                            s["last"] = t_att
                            s["notified"] += len(new)
                        continue
                    sel = [o["rec"] for o in objs_now if o["type"] in sop["types"]]
                    want = [r_ for r_ in sel if sop["filter"] is None or ref_match(r_, sop["filter"])]
                    mult = sop["mult"]
                    interval = sop["interval_ms"] if sop["interval_ms"] is not None else 0
                    since = t_att - s["last"]
                    enough = len(want) > 0 and (mult is None or len(want) >= mult)
                    if not enough:
                        verdict = "must_not"
                    elif sop["interval_ms"] is None or since >= interval + 1000:
                        verdict = "must"
                    elif since <= interval - 1000:
                        verdict = "must_not"
                    else:
                        verdict = "either"       # less than 1 s from the interval boundary at the LDM's clock resolution
                    if s["notified"] == 0 and verdict == "must_not" and enough and since < interval:
                        verdict = "either"           # first notification: immediately or one interval after subscribing
                    if len(new) > 1:
                        res.violation("C14:notified-more-than-once-in-one-attendance", f"subscription {key}: {len(new)} callbacks", ctx)
                    if verdict == "must":
                        res.count("must_notify_checked")
                        if not new:
                            res.violation(f"C14:matching-data-not-notified[{'first' if s['notified'] == 0 else 'later'}-notification]",
                                          f"subscription {key} (consumer {sop['app']}): {len(want)} matching objects, {since} ms since the previous notification, interval {interval} ms, multiplicity {mult}", ctx)
                    elif verdict == "must_not":
                        res.count("must_not_notify_checked")
                        if new:
                            why = "too-few-matches" if not enough else "interval-not-elapsed"
                            res.violation(f"C14:notified-although-{why}", f"subscription {key}: {len(want)} matches, multiplicity {mult}, {since} ms since previous, interval {interval} ms", ctx)
                    else:
                        res.count("either_unjudged")
                    if new:
                        t_cb, got, app_id, result, _q = new[0]
                        s["last"] = t_att
                        s["notified"] += 1
                        res.count("callbacks_compared")
                        if app_id != sop["app"] or result != 0:
                            res.violation("C14:notification-header-wrong", f"application {app_id}, result {result}", ctx)
                        missing = [w for w in want if w not in got]
                        extra = [g for g in got if g not in want]
                        if missing or extra or len(got) != len(want):
                            res.violation(f"C14:notified-set-differs[{'missing' if missing else 'extra'}]", f"subscription {key}: got {len(got)}, expected {len(want)} ({len(missing)} missing, {len(extra)} extra)", ctx)
                        elif sop["order"] and len(got) > 1 and not check_order(got, sop["order"]):
                            res.violation("C14:notified-order-differs", f"subscription {key}: not ordered by {sop['order']}", ctx)
        # ---------------------------------------------------------------- cadence over the whole callback log
        # whatever happened inside callbacks (re-entrant attendance included): two notifications of one subscription are
        # never closer than its interval (at the LDM's one-second resolution)
        for key, s in subs.items():
            iv = s["op"]["interval_ms"]
            if not iv or iv < 1000:
                continue
            for (a_, b_) in zip(s["log"], s["log"][1:]):
                res.count("notification_spacings_checked")
                if b_[0] - a_[0] <= iv - 1000:
                    res.violation("C14:notified-although-interval-not-elapsed[two-notifications-inside-one-interval]",
                                  f"subscription {key}: notifications {b_[0] - a_[0]} ms apart, interval {iv} ms", {"ops": c["ops"]})
                    break
    finally:
        clock.uninstall()


def run_shard(spec, res):
    rng = random.Random(spec["seed"])
    for k in range(spec["cases"]):
        c = gen_cadence(rng, spec["maxlen"]) if k % 4 == 3 else gen_reentrant(rng, spec["maxlen"]) if k % 4 == 1 else gen(rng, spec["maxlen"])
        run_case(c, res)
        res.case(repr(c))
        if k == 0:
            res.sample({"ops": c["ops"][:14]})


def shards(tier, seed):
    if tier == "thorough":
        return [{"seed": seed * 67 + i, "cases": 1900, "maxlen": 120} for i in range(16)]
    return [{"seed": seed * 67 + i, "cases": 60, "maxlen": 90} for i in range(16)]


def replay(case, res):
    run_case(case, res)
