"""C13 -- LDM queries return exactly the matching objects, identically on both back-ends.

Two real LDMs (Dictionary and TinyDB back-end, TinyDB file in a temp dir) receive the same history of additions (and a few
deletions); generated data requests (type selection, one- or two-statement filters over every dotted path that occurs in
the stored CAM/DENM/VAM/other dictionaries, all eight operators, matching / non-matching / wrong-typed reference values,
and/or, 0-3 order keys with mixed directions) are answered by both and compared with a brute-force evaluator.
"""
from __future__ import annotations

import random
import shutil
import tempfile

PROPERTY = "C13"
LEVEL = "exploration"
RULE = ("(store, request) pairs: stores of 0..60 objects with and without optional containers, requests drawn over all dotted dict paths of the "
        "stored messages, 8 operators, and/or, all type selections and order tuples; distinct by hash of (store seed, request); non-trivial = the "
        "brute-force evaluator selected a proper, non-empty subset or an order was requested.")
ASSUMPTIONS = ["dotted paths address dictionaries only (CHOICE values decoded as (name, value) sequences are not addressable)",
               "ordering comparisons against a reference value of another type match nothing; order attributes are chosen among attributes present in every selected object",
               "tuple/list differences introduced by TinyDB's JSON storage are normalised before comparison"]
REQUIRED_COUNTERS = ["requests", "dictionary_compared", "tinydb_compared", "backends_compared", "filters_selecting_proper_subset", "ordered_requests", "objects_lacking_attribute", "updates_between_requests", "repeated_requests", "hash_twin_requests"]

TYPES = (2, 1, 16, 3, 14)
OPS = ("==", "!=", ">", "<", ">=", "<=", "like", "notlike")


def norm(o):
    if isinstance(o, (list, tuple)):
        return [norm(x) for x in o]
    if isinstance(o, dict):
        return {k: norm(v) for k, v in o.items()}
    return o


def paths_of(d, pre=""):
    out = []
    for k, v in d.items():
        p = f"{pre}{k}"
        if isinstance(v, dict):
            out.append((p, None))
            out += paths_of(v, p + ".")
        else:
            out.append((p, v))
    return out


def get_path(msg, path):
    cur = msg
    for k in path.split("."):
        if not isinstance(cur, dict) or k not in cur:
            return False, None
        cur = cur[k]
    return True, cur


def ref_cmp(val, op, ref):
    if op == "==":
        return val == ref
    if op == "!=":
        return val != ref
    if op in ("like", "notlike"):
        if isinstance(val, str):
            r = str(ref) in val
        elif isinstance(val, (list, tuple, set)):
            r = ref in val
        else:
            r = False
        return r if op == "like" else not r
    try:
        return {">": val > ref, "<": val < ref, ">=": val >= ref, "<=": val <= ref}[op]
    except TypeError:
        return False


def ref_match(rec, flt):
    def one(st):
        ok, val = get_path(rec["dataObject"], st["path"])
        if not ok:
            return False            # an object lacking the attribute simply does not match
        return bool(ref_cmp(val, st["op"], st["ref"]))
    a = one(flt["s1"])
    if flt.get("s2") is None:
        return a
    b = one(flt["s2"])
    return (a and b) if flt["logic"] == "and" else (a or b)


def find_attr(d, name):
    """First value stored under key `name` anywhere in the record (depth first), like the documented order attribute lookup."""
    for k, v in d.items():
        if k == name:
            return True, v
        if isinstance(v, dict):
            ok, r = find_attr(v, name)
            if ok:
                return True, r
    return False, None


def gen_store(rng):
    from vf import ldmharness as H
    n = rng.choice((0, 1, 3, 8, 20, 40, 60))
    objs = []
    for i in range(n):
        t = rng.choice(TYPES)
        objs.append({"type": t, "msg": H.message(rng, t), "ts_off": rng.randrange(0, 5000), "validity": rng.choice((30, 60, 600)),
                     "dlat": rng.randrange(3000, 40000), "dlon": rng.randrange(3000, 40000)})
    return objs


def gen_request(rng, objs):
    allpaths = {}
    for o in objs:
        for p, v in paths_of(o["msg"]):
            if v is not None and not isinstance(v, (list, tuple)):
                allpaths.setdefault(p, []).append(v)
    plist = sorted(allpaths) or ["header.stationId"]

    def stmt():
        p = rng.choice(plist + ["header.stationId", "cam.generationDeltaTime", "cam.camParameters.lowFrequencyContainer", "nonexistent.path"])
        vals = allpaths.get(p, [1])
        r = rng.random()
        if r < 0.6:
            ref = rng.choice(vals)
        elif r < 0.8:
            v = rng.choice(vals)
            ref = v + rng.choice((-1, 1)) if isinstance(v, int) and not isinstance(v, bool) else (v + "x" if isinstance(v, str) else v)
        elif r < 0.9:
            ref = rng.choice(("forward", "a", 7, 0))
        else:
            ref = rng.choice(("zzz", 10 ** 12, -1))
        return {"path": p, "op": rng.choice(OPS), "ref": ref}
    flt = None
    r = rng.random()
    if r < 0.15:
        flt = None
    elif r < 0.6:
        flt = {"s1": stmt(), "logic": None, "s2": None}
    else:
        flt = {"s1": stmt(), "logic": rng.choice(("and", "or")), "s2": stmt()}
    types = rng.choice(((2,), (1,), (16,), (2, 16), (2, 1, 16), TYPES, (3,), (14, 3)))
    order = None
    if rng.random() < 0.45:
        cands = ["timestamp", "stationId", "application_id", "timeValidity", "latitude"]
        # attributes that every selected object has, but at a path that depends on the message type
        if set(types) <= {1, 2, 16}:
            cands += ["stationType", "stationType"]
        if set(types) <= {2, 16}:
            cands += ["generationDeltaTime", "generationDeltaTime"]
        cands = sorted(set(cands), key=cands.index) + [c_ for c_ in ("stationType", "generationDeltaTime") if cands.count(c_) > 1]
        k = rng.randrange(1, 4)
        picked = []
        for a in rng.sample(cands, min(k, len(cands))):
            if a not in picked:
                picked.append(a)
        order = [{"attr": a, "desc": rng.random() < 0.5} for a in picked]
    return {"types": list(types), "filter": flt, "order": order}


def build_req(app, rq):
    from flexstack.facilities.local_dynamic_map.ldm_classes import (RequestDataObjectsReq, Filter, FilterStatement, ComparisonOperators,
                                                                     LogicalOperators, OrderTupleValue, OrderingDirection)
    opmap = {"==": 0, "!=": 1, ">": 2, "<": 3, ">=": 4, "<=": 5, "like": 6, "notlike": 7}
    f = None
    if rq["filter"] is not None:
        s1 = rq["filter"]["s1"]
        fs1 = FilterStatement(s1["path"], ComparisonOperators(opmap[s1["op"]]), s1["ref"])
        if rq["filter"]["s2"] is not None:
            s2 = rq["filter"]["s2"]
            f = Filter(fs1, LogicalOperators(0 if rq["filter"]["logic"] == "and" else 1), FilterStatement(s2["path"], ComparisonOperators(opmap[s2["op"]]), s2["ref"]))
        else:
            f = Filter(fs1)
    order = None
    if rq["order"] is not None:
        order = [OrderTupleValue(o["attr"], OrderingDirection(1 if o["desc"] else 0)) for o in rq["order"]]
    return RequestDataObjectsReq(app, tuple(rq["types"]), None, order, f)


def check_order(seq, order):
    """Is seq sorted by the order keys (each with its own direction)?  Ties may appear in any order."""
    keys = []
    for rec in seq:
        k = []
        for o in order:
            ok, v = find_attr(rec, o["attr"])
            k.append(v)
        keys.append(k)
    for a, b in zip(keys, keys[1:]):
        for (x, y, o) in zip(a, b, order):
            if x == y:
                continue
            if (x > y) if not o["desc"] else (x < y):
                return False
            break
    return True


def run_case(c, res):
    from vf.vclock import VClock
    from vf import ldmharness as H
    from flexstack.facilities.local_dynamic_map.ldm_classes import (RegisterDataProviderReq, RegisterDataConsumerReq, AddDataProviderReq,
                                                                     DeleteDataProviderReq, UpdateDataProviderReq, TimestampIts, TimeValidity, AccessPermission)
    import copy
    rng = random.Random(c["seed"])
    objs = gen_store(rng)
    clock = VClock().install()
    clock.install_ldm()
    tmp = tempfile.mkdtemp(prefix="verif-c13-")
    try:
        ldms = {"Dictionary": H.make_ldm("Dictionary"), "TinyDB": H.make_ldm("TinyDB", tmpdir=tmp)}
        live = []
        for name, ldm in ldms.items():
            for app in (2, 1, 16):
                ldm.if_ldm_3.register_data_provider(RegisterDataProviderReq(app, (AccessPermission(app),), TimeValidity(1000)))
            ldm.if_ldm_4.register_data_consumer(RegisterDataConsumerReq(2, (AccessPermission.CAM,), H.area()))
        now = H.its_now(clock)
        recs = []
        for i, o in enumerate(objs):
            req = AddDataProviderReq(2, TimestampIts(now - o["ts_off"]), H.location(H.LDM_LAT + o["dlat"], H.LDM_LON + o["dlon"]), o["msg"], TimeValidity(o["validity"]))
            ids = {}
            for name, ldm in ldms.items():
                ids[name] = ldm.if_ldm_3.add_provider_data(req).data_object_id
            recs.append({"rec": norm(req.to_dict()), "ids": ids, "type": o["type"]})
        # a few deletions: the same history on both back-ends
        for k in range(rng.choice((0, 0, 1, 3))):
            if recs:
                victim = recs.pop(rng.randrange(len(recs)))
                for name, ldm in ldms.items():
                    ldm.if_ldm_3.delete_provider_data(DeleteDataProviderReq(2, victim["ids"][name], TimestampIts(now)))
        mrng = random.Random(c["seed"] ^ 0x5EED)      # the history between requests has its own stream (requests stay as they were)
        prev_rq = None
        for q in range(c["requests"]):
            # the store keeps changing between requests -- the same operation on both back-ends and on the model
            m = mrng.random()
            if recs and m < 0.15:
                victim = recs[mrng.randrange(len(recs))]
                msg = H.message(mrng, victim["type"])
                oks = []
                for name, ldm in ldms.items():
                    r_ = ldm.if_ldm_3.update_provider_data(UpdateDataProviderReq(2, victim["ids"][name], TimestampIts(now), H.location(H.LDM_LAT + 5000, H.LDM_LON + 5000),
                                                                                  copy.deepcopy(msg), TimeValidity(600)))
                    oks.append(int(r_.result) == 0)
                if all(oks):
                    victim["rec"]["dataObject"] = norm(copy.deepcopy(msg))
                    res.count("updates_between_requests")
                else:
                    res.violation("C13:update-of-stored-object-refused", f"{oks}", {"seed": c["seed"], "request_index": q})
            elif recs and m < 0.20:
                victim = recs.pop(mrng.randrange(len(recs)))
                for name, ldm in ldms.items():
                    ldm.if_ldm_3.delete_provider_data(DeleteDataProviderReq(2, victim["ids"][name], TimestampIts(now)))
                res.count("deletes_between_requests")
            rq = gen_request(rng, objs)
            if prev_rq is not None and mrng.random() < 0.3:
                rq = prev_rq                 # the same request again (after the store may have changed)
                res.count("repeated_requests")
            elif prev_rq is not None and prev_rq["filter"] is not None and mrng.random() < 0.35:
                # the previous request again with reference values that differ but hash alike in CPython (-1 / -2, x / x + 2^61-1):
                # an answer must depend on the value, not on anything derived from hash(filter)
                tw = copy.deepcopy(prev_rq)
                changed = False
                for st in (tw["filter"]["s1"], tw["filter"]["s2"]):
                    if st and isinstance(st["ref"], int) and not isinstance(st["ref"], bool):
                        st["ref"] = {-1: -2, -2: -1}.get(st["ref"], st["ref"] + (2 ** 61 - 1))
                        changed = True
                if changed:
                    rq = tw
                    res.count("hash_twin_requests")
            prev_rq = rq
            ctx = {"seed": c["seed"], "request_index": q, "request": rq, "store_size": len(recs)}
            res.count("requests")
            sel = [r for r in recs if r["type"] in rq["types"]]
            if rq["filter"] is not None:
                want = [r["rec"] for r in sel if ref_match(r["rec"], rq["filter"])]
                lacking = sum(1 for r in sel for st in (rq["filter"]["s1"], rq["filter"]["s2"]) if st and not get_path(r["rec"]["dataObject"], st["path"])[0])
                if lacking and len(sel) > lacking:
                    res.count("objects_lacking_attribute")
                if 0 < len(want) < len(recs):
                    res.count("filters_selecting_proper_subset")
            else:
                want = [r["rec"] for r in sel]
            if rq["order"]:
                res.count("ordered_requests")
            answers = {}
            for name, ldm in ldms.items():
                try:
                    resp = ldm.if_ldm_4.request_data_objects(build_req(2, rq))
                except Exception as e:  # noqa
                    fk = "unfiltered" if rq["filter"] is None else ("two-statement" if rq["filter"]["s2"] else "one-statement")
                    res.violation(f"C13:request-raises-{type(e).__name__}[{name}][{fk}{',ordered' if rq['order'] else ''}]", f"{e!r}", ctx)
                    continue
                if int(resp.result) != 0:
                    res.violation(f"C13:valid-request-refused[{name}]", f"{resp.result!s}", ctx)
                    continue
                got = [norm(x) for x in resp.data_objects]
                answers[name] = got
                res.count("dictionary_compared" if name == "Dictionary" else "tinydb_compared")
                missing = [w for w in want if w not in got]
                extra = [g for g in got if g not in want]
                if missing or extra or len(got) != len(want):
                    if rq["filter"] is None:
                        cls = "unfiltered:type-selection" if extra and all(H.type_of(g.get("dataObject", {})) not in rq["types"] for g in extra) else "unfiltered"
                    else:
                        sts = [s for s in (rq["filter"]["s1"], rq["filter"]["s2"]) if s]
                        lack = any(not get_path(r["rec"]["dataObject"], s["path"])[0] for r in sel for s in sts)
                        cls = ("some-object-lacks-attribute" if lack else "all-have-attribute") + "," + ("two-statement:" + rq["filter"]["logic"] if rq["filter"]["s2"] else "one-statement")
                    res.violation(f"C13:result-set-differs[{name}][{cls}][{'missing' if missing else 'extra'}]",
                                  f"{name}: {len(got)} returned, {len(want)} expected ({len(missing)} missing, {len(extra)} extra)", ctx)
                elif rq["order"] and len(got) > 1:
                    if not check_order(got, rq["order"]):
                        dirs = {o["desc"] for o in rq["order"]}
                        res.violation(f"C13:order-differs[{name}][{'mixed-directions' if len(dirs) > 1 else 'single-direction'}][{len(rq['order'])}-keys]",
                                      f"result not ordered by {rq['order']}", ctx)
            if len(answers) == 2:
                res.count("backends_compared")
                a, b = answers["Dictionary"], answers["TinyDB"]
                if sorted(map(repr, a)) != sorted(map(repr, b)):
                    res.violation("C13:backends-differ", f"Dictionary returned {len(a)}, TinyDB {len(b)} objects for the same history and request", ctx)
            res.case((c["seed"], repr(rq)))
    finally:
        clock.uninstall()
        for ldm in ldms.values():
            db = ldm.ldm_maintenance.data_containers
            if hasattr(db, "database") and hasattr(db.database, "close"):
                try:
                    db.database.close()
                except Exception:  # noqa
                    pass
        shutil.rmtree(tmp, ignore_errors=True)


def run_shard(spec, res):
    rng = random.Random(spec["seed"])
    for k in range(spec["stores"]):
        c = {"seed": rng.randrange(1 << 40), "requests": spec["requests"]}
        run_case(c, res)
        if k == 0:
            r2 = random.Random(c["seed"])
            objs = gen_store(r2)
            res.sample({"store_seed": c["seed"], "objects": len(objs), "example_request": gen_request(r2, objs)})


def shards(tier, seed):
    if tier == "thorough":
        return [{"seed": seed * 61 + i, "stores": 500, "requests": 50} for i in range(16)]
    return [{"seed": seed * 61 + i, "stores": 12, "requests": 30} for i in range(8)]


def replay(case, res):
    run_case({"seed": case["seed"], "requests": case["request_index"] + 1}, res)
