"""C19 -- DCC algorithms respect TS 102 687 state, rate and duty-cycle limits.

Runtime monitors over the real DccReactive / DccAdaptive / GateKeeper objects:
  RX  reactive: every CBR sequence of length L over band-boundary representatives (edge -1 ulp, edge, +1 ulp,
      band interiors), both Annex A tables, compared step by step with the reference machine; constant-input
      convergence within four evaluations from every reachable state
  RW  reactive random walks incl. out-of-range inputs
  AD  adaptive: random parameter sets and CBR sequences; every step re-derived exactly (rationals) from the
      object's own previous state; bounds; rejection of CBR outside [0,1]
  GK  gate keeper: random arrival / delta-update / query streams against the exact Annex B gate; probes just
      before and after every scheduled opening; 25 ms / 1 s / one-per-opening invariants on the real outputs
"""
from __future__ import annotations

import itertools
import math
import random
from fractions import Fraction as Fr

from vf.ref import dcc as R

PROPERTY = "C19"
LEVEL = "exploration"
RULE = ("RX: CBR sequences enumerated exhaustively over boundary representatives (distinct by (table, sequence)); RW/AD/GK: "
        "seeded random histories, distinct by hash of the whole input history; non-trivial = at least one output was "
        "compared with the reference model.")
ASSUMPTIONS = ["Annex A rows are the oracle's own transcription (standard text not available offline); rate x T_off = 1 s checked independently",
               "time and delta compared with 1 us / 1e-12 tolerance; instants within 1 us of a scheduled opening are not judged"]
REQUIRED_COUNTERS = ["RX.steps", "RW.steps", "AD.steps", "GK.decisions", "GK.opening_probes", "GK.calls_earlier_than_previous_call"]
EXHAUSTIVE = {}


def reps(table):
    b = R.TABLES[table]["bounds"]
    vals = {0.0, 1.0, 0.15, 0.35, 0.45, 0.55, 0.62, 0.8}
    for e in b:
        vals.update((math.nextafter(e, 0.0), e, math.nextafter(e, 1.0)))
    vals.add(math.nextafter(1.0, 0.0))
    vals.add(math.nextafter(0.0, 1.0))
    return sorted(vals)


def shards(tier, seed):
    out = []
    L = 6 if tier == "thorough" else 4
    for table, t_on in (("A1", 1000), ("A2", 500)):
        rp = reps(table)
        # shard by first element
        groups = 16 if tier == "thorough" else 4
        for g in range(groups):
            out.append({"part": "RX", "t_on": t_on, "table": table, "L": L, "first": list(range(g, len(rp), groups))})
    n = 16 if tier == "thorough" else 4
    k = 20 if tier == "thorough" else 1
    for i in range(n):
        out.append({"part": "RW", "seed": seed * 131 + i, "walks": 300 * k})
        out.append({"part": "AD", "seed": seed * 137 + i, "runs": 150 * k})
        out.append({"part": "GK", "seed": seed * 139 + i, "runs": 200 * k})
    return out


def new_reactive(t_on):
    from flexstack.management.dcc_reactive import DccReactive
    return DccReactive(t_on_max_us=t_on)


def step_and_check(dcc, table, ref_state, cbr, res, case):
    """One update() on the real object compared with the reference. Returns new ref state."""
    before = dcc.state.value
    out = dcc.update(cbr)
    rs, rate, toff = R.reactive_step(table, ref_state, cbr)
    if abs(out.state.value - before) > 1:
        res.violation("C19:reactive-jumps-more-than-one-state", f"state {before} -> {out.state.value} on cbr {cbr!r}", case)
    if out.state.value != rs:
        res.violation("C19:reactive-state-differs-from-reference", f"cbr {cbr!r}: state {out.state.value}, reference {rs} (from {before})", case)
    elif out.packet_rate_hz != rate or out.t_off_ms != toff:
        res.violation("C19:reactive-output-not-annex-A-row", f"state {rs}: got ({out.packet_rate_hz},{out.t_off_ms}) want ({rate},{toff})", case)
    if abs(out.packet_rate_hz * out.t_off_ms - 1000.0) > 1e-6:
        res.violation("C19:reactive-rate-toff-inconsistent", f"rate {out.packet_rate_hz} x T_off {out.t_off_ms} != 1 s", case)
    if dcc.state is not out.state:
        res.violation("C19:reactive-returned-state-not-current-state", "output state differs from object state", case)
    return out.state.value


def run_rx(spec, res):
    table, t_on, L = spec["table"], spec["t_on"], spec["L"]
    rp = reps(table)
    if R.table_for(t_on) != table:
        raise RuntimeError("table selection oracle mismatch")
    n = 0
    for fi in spec["first"]:
        for rest in itertools.product(rp, repeat=L - 1):
            seq = (rp[fi],) + rest
            dcc = new_reactive(t_on)
            st = 0
            case = {"part": "RX", "t_on": t_on, "table": table, "seq": list(seq)}
            for cbr in seq:
                st = step_and_check(dcc, table, st, cbr, res, case)
                st = dcc.state.value  # keep following the real object (divergence already reported)
            n += 1
            res.count("RX.steps", L)
    res.enumerated(n)
    # constant input: band state reached within four evaluations from every reachable state
    for start in range(5):
        for cbr in rp:
            dcc = new_reactive(t_on)
            drive = [0.99] * start  # reaches state 'start' from RELAXED
            for c in drive:
                dcc.update(c)
            if dcc.state.value != start:
                res.violation("C19:reactive-state-differs-from-reference", f"cannot drive to state {start}", {"part": "RX", "drive": drive})
                continue
            case = {"part": "RXC", "t_on": t_on, "table": table, "start": start, "cbr": cbr}
            for _ in range(4):
                out = dcc.update(cbr)
            res.count("RX.constant_checks")
            want = R.target_state(table, cbr)
            if out.state.value != want:
                res.violation("C19:reactive-constant-cbr-not-reached-in-4", f"from {start} constant {cbr!r}: state {out.state.value} want {want}", case)
            out2 = dcc.update(cbr)
            if out2.state.value != want:
                res.violation("C19:reactive-constant-cbr-not-stable", f"leaves band state {want} under constant {cbr!r}", case)
    res.sample({"part": "RX", "table": table, "L": L, "representatives": rp, "first_indices": spec["first"]})


BAD = (-1e-9, -0.0001, -1.0, 1.0000000001, 1.5, float("nan"), float("inf"), float("-inf"), math.nextafter(1.0, 2.0), math.nextafter(0.0, -1.0))


def r_cbr(rng, table="A1"):
    r = rng.random()
    if r < 0.35:
        e = rng.choice(R.TABLES[table]["bounds"] + (0.0, 1.0))
        return min(1.0, max(0.0, e + rng.choice((-1e-12, -1e-6, 0.0, 1e-6, 1e-12, -0.01, 0.01))))
    return rng.random()


def run_rw(spec, res):
    rng = random.Random(spec["seed"])
    for w in range(spec["walks"]):
        t_on = rng.choice((100, 499, 500, 501, 1000, 2000))
        table = R.table_for(t_on)
        dcc = new_reactive(t_on)
        st = 0
        hist = []
        case = {"part": "RW", "seed": spec["seed"], "walk": w, "t_on": t_on}
        for i in range(rng.randrange(5, 120)):
            if rng.random() < 0.06:
                bad = rng.choice(BAD)
                before = dcc.state
                try:
                    dcc.update(bad)
                    res.violation("C19:reactive-accepts-cbr-outside-[0,1]", f"update({bad!r}) accepted", {**case, "hist": hist[-10:], "bad": repr(bad)})
                except ValueError:
                    res.count("RW.rejections")
                if dcc.state is not before:
                    res.violation("C19:reactive-state-changed-by-rejected-input", f"update({bad!r})", {**case, "bad": repr(bad)})
                continue
            cbr = r_cbr(rng, table)
            hist.append(cbr)
            st = step_and_check(dcc, table, st, cbr, res, {**case, "hist": hist[-12:]})
            res.count("RW.steps")
        res.case(("RW", t_on, tuple(hist)))
        if w == 0:
            res.sample({**case, "cbr_prefix": hist[:8]})


# ------------------------------------------------------------------------------------------ AD
def r_params(rng):
    if rng.random() < 0.3:
        return dict(R.DEFAULTS)
    dmin = rng.choice((0.0006, 0.0001, 0.001, 0.01, rng.uniform(1e-5, 0.02)))
    dmax = max(dmin, rng.choice((0.03, 0.05, 0.002, dmin, rng.uniform(dmin, 0.1))))
    return dict(alpha=rng.choice((0.016, 0.1, 0.5, rng.uniform(0.001, 0.9))), beta=rng.choice((0.0012, 0.01, rng.uniform(1e-4, 0.05))),
                cbr_target=rng.choice((0.68, 0.5, 0.3, rng.uniform(0.05, 0.95))), delta_max=dmax, delta_min=dmin,
                delta_up_max=rng.choice((0.0005, 0.001, rng.uniform(1e-5, 0.005))),
                delta_down_max=-rng.choice((0.00025, 0.001, rng.uniform(1e-5, 0.005))))


def run_ad(spec, res):
    from flexstack.management.dcc_adaptive import DccAdaptive, DccAdaptiveParameters
    rng = random.Random(spec["seed"])
    for r in range(spec["runs"]):
        p = r_params(rng)
        alg = DccAdaptive(parameters=DccAdaptiveParameters(**p))
        case = {"part": "AD", "seed": spec["seed"], "run": r, "params": p}
        if alg.delta != p["delta_min"] or alg.cbr_its_s != 0.0:
            res.violation("C19:adaptive-initial-state-wrong", f"delta {alg.delta} cbr {alg.cbr_its_s}", case)
        hist = []
        mode = rng.choice(("const", "walk", "walk", "step", "edge"))
        x = rng.random()
        for i in range(rng.randrange(10, 400)):
            if mode == "const":
                a = b = x
            elif mode == "walk":
                x = min(1.0, max(0.0, x + rng.uniform(-0.1, 0.1)))
                a, b = x, min(1.0, max(0.0, x + rng.uniform(-0.02, 0.02)))
            elif mode == "step":
                a = b = (0.05 if (i // 40) % 2 == 0 else 0.97)
            else:
                a, b = rng.choice((0.0, 1.0, p["cbr_target"], math.nextafter(p["cbr_target"], 0), math.nextafter(p["cbr_target"], 1))), rng.choice((0.0, 1.0, p["cbr_target"]))
            if rng.random() < 0.04:
                bad = rng.choice(BAD)
                s0 = (alg.delta, alg.cbr_its_s)
                args = (bad, b) if rng.random() < 0.5 else (a, bad)
                try:
                    alg.update(*args)
                    res.violation("C19:adaptive-accepts-local-cbr-outside-[0,1]", f"update{args!r} accepted", {**case, "bad": repr(args)})
                except ValueError:
                    res.count("AD.rejections")
                if (alg.delta, alg.cbr_its_s) != s0 and not any(isinstance(v, float) and math.isnan(v) for v in s0):
                    res.violation("C19:adaptive-state-changed-by-rejected-input", f"update{args!r}", {**case, "bad": repr(args)})
                continue
            use_global = rng.random() < 0.15
            d0, c0 = alg.delta, alg.cbr_its_s
            if use_global:
                g0, g1 = rng.random(), rng.random()
                got = alg.update(a, b, cbr_global=g0, cbr_global_previous=g1)
                wc, wd = R.adaptive_step(p, c0, d0, g0, g1)
            else:
                got = alg.update(a, b)
                wc, wd = R.adaptive_step(p, c0, d0, a, b)
            hist.append((a, b))
            res.count("AD.steps")
            step_case = {**case, "step": i, "prev_delta": d0, "prev_cbr": c0, "in": [a, b], "global": use_global}
            if got != alg.delta:
                res.violation("C19:adaptive-return-differs-from-state", f"returned {got} delta {alg.delta}", step_case)
            if not (p["delta_min"] <= got <= p["delta_max"]):
                res.violation("C19:adaptive-delta-outside-bounds", f"delta {got!r} outside [{p['delta_min']},{p['delta_max']}]", step_case)
            if abs(Fr(got) - wd) > Fr(1, 10 ** 12) * max(abs(wd), Fr(1, 10 ** 6)):
                res.violation("C19:adaptive-delta-differs-from-clause-5.4", f"delta {got!r}, reference {float(wd)!r}", step_case)
            if abs(Fr(alg.cbr_its_s) - wc) > Fr(1, 10 ** 12):
                res.violation("C19:adaptive-cbr-average-differs-from-eq1", f"cbr_its_s {alg.cbr_its_s!r}, reference {float(wc)!r}", step_case)
        res.case(("AD", repr(sorted(p.items())), tuple(hist[:50]), len(hist)))
        if r == 0:
            res.sample({**case, "mode": mode, "inputs_prefix": hist[:5], "final_delta": alg.delta})


# ------------------------------------------------------------------------------------------ GK
TOL = 1e-6


def run_gk(spec, res):
    from flexstack.management.dcc_adaptive import GateKeeper
    rng = random.Random(spec["seed"])
    for r in range(spec["runs"]):
        d0 = rng.choice((0.0006, 0.03, 0.01, rng.uniform(0.0006, 0.03), rng.uniform(1e-4, 0.5)))
        gk = GateKeeper(delta=d0)
        ref = R.Gate(d0)
        t = rng.choice((0.0, 1000.0, 1.7e9))
        events = []
        case = {"part": "GK", "seed": spec["seed"], "run": r, "delta0": d0, "t0": t}
        last_adm = None
        t_fwd = t
        for i in range(rng.randrange(5, 150)):
            kind = rng.choices(("arrive", "delta", "query", "burst", "late"), (5, 2, 2, 1, 1))[0]
            t = t_fwd
            t += rng.choice((0.0, 1e-4, 0.001, 0.01, 0.0249, 0.025, 0.0251, 0.1, 0.5, 1.0, 1.2, rng.uniform(0, 0.3)))
            t_fwd = t
            if kind == "late":
                # a caller whose time stamp is earlier than that of the previous call (time stamp taken before another
                # thread's admission, or a time source set back): B.1/B.2 decide on the instant alone
                t = t - rng.choice((1e-4, 0.001, 0.02, 0.03, 0.5, 5.0))
                kind = rng.choice(("arrive", "query"))
                res.count("GK.calls_earlier_than_previous_call")
            if kind in ("arrive", "burst"):
                t_on = rng.choice((0.0002, 0.0005, 0.001, 0.004, rng.uniform(1e-5, 0.01)))
                n = 1 if kind == "arrive" else rng.randrange(2, 5)
                for _ in range(n):
                    events.append(("arrive", t, t_on))
                    got = gk.admit_packet(t, t_on)
                    m = ref.margin(t)
                    if m is not None and m <= Fr(TOL):
                        res.count("GK.undetermined")
                        # follow the implementation through the undecidable instant
                        if got:
                            ref.t_go = Fr(t)
                            ref.admit(t, t_on)
                        else:
                            ref.t_go = Fr(t) + Fr(TOL)
                    else:
                        want = ref.admit(t, t_on)
                        res.count("GK.decisions")
                        if got != want:
                            key = "C19:gate-admits-while-closed" if got else "C19:gate-rejects-while-open"
                            res.violation(key, f"t={t!r} t_on={t_on!r}: admitted={got}, reference {want} (t_go {float(ref.t_go) if ref.t_go else None})", {**case, "events": events[-12:]})
                            # resync
                            ref.t_pg, ref.t_go = (Fr(gk._t_pg) if gk._t_pg is not None else None), (Fr(gk._t_go) if gk._t_go is not None else None)
                    if got:
                        if last_adm is not None and t - last_adm < 0.025 - TOL:
                            res.violation("C19:gate-admissions-closer-than-25ms", f"admissions at {last_adm!r} and {t!r}", {**case, "events": events[-12:]})
                        last_adm = t
                        res.count("GK.admissions")
                        # one packet per opening
                        if gk.is_open(t):
                            res.violation("C19:gate-still-open-after-admission", f"is_open({t!r}) right after admission", {**case, "events": events[-12:]})
                        # never closed longer than 1 s
                        if not gk.is_open(t + 1.0 + TOL):
                            res.violation("C19:gate-closed-longer-than-1s", f"admitted at {t!r}, still closed at +1 s", {**case, "events": events[-12:]})
                        # opens exactly at B.1
                        tgo = float(ref.t_go)
                        res.count("GK.opening_probes")
                        if gk.is_open(tgo - 10 * TOL) and tgo - 10 * TOL > t:
                            res.violation("C19:gate-opens-before-B.1-time", f"open at {tgo - 10 * TOL!r}, B.1 gives {tgo!r}", {**case, "events": events[-12:]})
                        if not gk.is_open(tgo + 10 * TOL):
                            res.violation("C19:gate-opens-after-B.1-time", f"closed at {tgo + 10 * TOL!r}, B.1 gives {tgo!r}", {**case, "events": events[-12:]})
            elif kind == "delta":
                dn = rng.choice((0.0006, 0.03, rng.uniform(0.0006, 0.03), ref.delta and float(ref.delta) * rng.choice((0.5, 0.9, 1.0, 1.1, 2.0, 10.0))))
                events.append(("delta", t, dn))
                m = ref.margin(t)
                gk.update_delta(t, dn)
                if m is not None and m <= Fr(TOL):
                    res.count("GK.undetermined")
                    ref.delta = Fr(dn)
                    ref.t_go = Fr(gk._t_go)
                    continue
                was_closed = not ref.is_open(t)
                ref.update_delta(t, dn)
                if was_closed:
                    tgo = float(ref.t_go)
                    res.count("GK.opening_probes")
                    res.count("GK.rescales")
                    lo, hi = tgo - 10 * TOL, tgo + 10 * TOL
                    if lo > t and gk.is_open(lo):
                        res.violation("C19:gate-opens-before-B.2-time", f"after delta {dn!r} at {t!r}: open at {lo!r}, B.2 gives {tgo!r}", {**case, "events": events[-12:]})
                    if hi > t and not gk.is_open(hi):
                        res.violation("C19:gate-opens-after-B.2-time", f"after delta {dn!r} at {t!r}: closed at {hi!r}, B.2 gives {tgo!r}", {**case, "events": events[-12:]})
                    if last_adm is not None and ref.t_go - Fr(last_adm) < Fr(25, 1000) - Fr(TOL):
                        res.violation("C19:reference-selfcheck", "B.2 reference below 25 ms", case)
            else:
                events.append(("query", t))
                m = ref.margin(t)
                got = gk.is_open(t)
                if m is not None and m <= Fr(TOL):
                    res.count("GK.undetermined")
                else:
                    res.count("GK.decisions")
                    if got != ref.is_open(t):
                        res.violation("C19:gate-open-state-differs-from-annex-B", f"is_open({t!r}) = {got}, reference {ref.is_open(t)}", {**case, "events": events[-12:]})
        res.case(("GK", d0, tuple(events)))
        if r == 0:
            res.sample({**case, "events_prefix": events[:6]})
    # argument validation named by the docstrings
    gk = GateKeeper(delta=0.01)
    for bad in (0.0, -1.0):
        try:
            gk.admit_packet(0.0, bad)
            res.violation("C19:gate-accepts-nonpositive-t_on", f"t_on={bad}", {"part": "GK", "t_on": bad})
        except ValueError:
            pass


def run_shard(spec, res):
    {"RX": run_rx, "RW": run_rw, "AD": run_ad, "GK": run_gk}[spec["part"]](spec, res)


def replay(case, res):
    part = case.get("part")
    if part in ("RX", "RXC"):
        if "seq" in case:
            dcc = new_reactive(case["t_on"])
            st = 0
            for cbr in case["seq"]:
                st = step_and_check(dcc, case["table"], st, cbr, res, case)
                st = dcc.state.value
        else:
            run_rx({"table": case["table"], "t_on": case["t_on"], "L": 1, "first": []}, res)
    elif part == "RW":
        run_rw({"seed": case["seed"], "walks": case["walk"] + 1}, res)
    elif part == "AD":
        run_ad({"seed": case["seed"], "runs": case["run"] + 1}, res)
    elif part == "GK":
        run_gk({"seed": case["seed"], "runs": case["run"] + 1}, res)
