"""C03 -- secured packets are delivered only if authentic and untampered.

An honest sender (real router + SignService, ticket under the trusted root) emits secured CAM/VAM-profile SHBs, a
DENM-profile GBC and generic-profile SHBs; the frames are captured on the simulated ether.  A receiver with security
ENABLED is then fed, in generated orders, genuine frames and forged ones: every single-bit flip (thorough) or a sample
(quick), byte substitutions, truncations, extensions, structure-level mutations of the decoded envelope re-encoded
(payload, psid, generation time, signer, r/s values, curve point form, certificate fields), frames signed under an
attacker-built root/AA/AT chain or by a ticket re-signed with a foreign key, and unsecured packets.  Provenance oracle:
a frame may be delivered only if its secured part decodes to exactly the structure an honest station emitted.
"""
from __future__ import annotations

import copy
import random

from vf.ref import wire as W

PROPERTY = "C03"
LEVEL = "exploration"
RULE = ("(genuine frame, mutation, receiver history) triples; distinct by hash of the injected bytes plus history class; non-trivial = the "
        "frame is not byte-identical to a genuine one and its decoded secured part differs from the genuine (must-not-deliver was checked).")
ASSUMPTIONS = ["a mutation that leaves the decoded secured structure (signed data, signer, signature) identical is 'equivalent' and may be delivered (encoding slack, trailing octets, unsigned basic header)",
               "exceptions raised by the receive path count as 'not delivered' here (C04 decides their effect on the loop)",
               "python-ecdsa is trusted"]
REQUIRED_COUNTERS = ["frames_injected", "must_not_deliver_checked", "equivalent_mutations", "genuine_delivered", "bitflips", "structure_mutations", "attacker_chain_frames", "unsecured_frames", "insider_frames", "attacker_frames_judged_after_insider_frames", "rounds_with_a_neighbour_station_of_the_other_trust_domain"]

LAT, LON = 415000000, 21000000


def emit_genuine(clock, G, res, pay=None):
    """Honest sender emits one frame of every profile; returns list of (label, bytes)."""
    from vf.gnharness import World, gn_request, area, mid_of
    from vf.ether import Ether
    from vf.stations import Station
    from flexstack.geonet.mib import GnSecurity, AreaForwardingAlgorithm
    from flexstack.geonet.service_access_point import CommonNH
    from flexstack.security.security_profiles import SecurityProfile
    ether = Ether(clock)
    sec = G.station(G.ats[0])
    S = Station(ether, "S", mid_of(1), lat=LAT, lon=LON, clock=clock, sign=sec["sign"], verify=sec["verify"], ports=(2001,),
                mib_over={"itsGnSecurity": GnSecurity.ENABLED, "itsGnAreaForwardingAlgorithm": AreaForwardingAlgorithm.SIMPLE})
    out = []

    def req(profile, aid, data, kind="shb"):
        n0 = len(ether.wire)
        r = gn_request(kind, data, nh=CommonNH.BTP_B, ar=area(LAT, LON, 500, 500, 0) if kind == "gbc" else None, hop=3)
        from dataclasses import replace
        r = replace(r, security_profile=profile, its_aid=aid)
        S.router.gn_data_request(r)
        return [p for (_, _, s, p) in ether.wire[n0:] if s == "S"]
    for k in range(3):
        f = req(SecurityProfile.COOPERATIVE_AWARENESS_MESSAGE, 36, b"\x07\xd1\x00\x00" + (pay["cam"] if pay else b"CAM-%d" % k))
        out.append((f"cam{k}", f[0]))
        clock.advance(0.4 if k == 0 else 0.8)
    out.append(("vam", req(SecurityProfile.VRU_AWARENESS_MESSAGE, 638, b"\x07\xe2\x00\x00" + (pay["vam"] if pay else b"VAM"))[0]))
    clock.advance(0.2)
    out.append(("denm", req(SecurityProfile.DECENTRALIZED_ENVIRONMENTAL_NOTIFICATION_MESSAGE, 37, b"\x07\xd2\x00\x00" + (pay["denm"] if pay else b"DENM"), kind="gbc")[0]))
    clock.advance(0.2)
    out.append(("generic", req(SecurityProfile.NO_SECURITY, 99, b"\x0b\xb8\x00\x00GENERIC")[0]))
    return out


def new_receiver(clock, G, known_ats=()):
    from vf.gnharness import mid_of
    from vf.ether import Ether
    from vf.stations import Station
    from flexstack.geonet.mib import GnSecurity, AreaForwardingAlgorithm
    ether = Ether(clock)
    sec = G.station(G.ats[1], known_ats=known_ats)
    R = Station(ether, "R", mid_of(2), lat=LAT + 300, lon=LON + 300, clock=clock, sign=sec["sign"], verify=sec["verify"], ports=(2001, 2018, 2002, 3000),
                mib_over={"itsGnSecurity": GnSecurity.ENABLED, "itsGnAreaForwardingAlgorithm": AreaForwardingAlgorithm.SIMPLE})
    return ether, R, sec


def decode_sec(frame):
    from flexstack.security.certificate import SECURITY_CODER
    try:
        if len(frame) < 5 or (frame[0] & 0x0F) != 2:
            return None
        return SECURITY_CODER.decode_etsi_ts_103097_data_signed(frame[4:])
    except Exception:  # noqa
        return None


def signed_view(d):
    """What the property protects: the signed data, the signer and the signature (hashId and the outer protocol
    version are outside ToBeSignedData and are not covered by the signature)."""
    try:
        sd = d["content"][1]
        return (d["content"][0], sd["tbsData"], sd["signer"], sd["signature"])
    except Exception:  # noqa
        return ("?", repr(d))


def structure_mutations(g, G, A, rng):
    """Decoded-structure mutations of genuine frame g, re-encoded.  Yields (label, frame)."""
    from flexstack.security.certificate import SECURITY_CODER
    base = SECURITY_CODER.decode_etsi_ts_103097_data_signed(g[4:])

    def enc(d):
        return g[:4] + SECURITY_CODER.encode_etsi_ts_103097_data_signed(d)

    def sd(d):
        return d["content"][1]
    muts = []
    d = copy.deepcopy(base)
    p = bytearray(sd(d)["tbsData"]["payload"]["data"]["content"][1])
    p[rng.randrange(len(p))] ^= 1 << rng.randrange(8)
    sd(d)["tbsData"]["payload"]["data"]["content"] = ("unsecuredData", bytes(p))
    muts.append(("payload-bit", d))
    d = copy.deepcopy(base)
    sd(d)["tbsData"]["payload"]["data"]["content"] = ("unsecuredData", sd(d)["tbsData"]["payload"]["data"]["content"][1] + b"\x00")
    muts.append(("payload-extended", d))
    d = copy.deepcopy(base)
    sd(d)["tbsData"]["headerInfo"]["psid"] = {36: 638, 638: 36, 37: 36, 99: 36}.get(sd(d)["tbsData"]["headerInfo"]["psid"], 36)
    muts.append(("psid", d))
    for delta in (1, -1, 10 ** 6):
        d = copy.deepcopy(base)
        sd(d)["tbsData"]["headerInfo"]["generationTime"] += delta
        muts.append((f"generationTime{delta:+d}", d))
    d = copy.deepcopy(base)
    if sd(d)["signer"][0] == "digest":
        sd(d)["signer"] = ("digest", G.ats[2].as_hashedid8())
        muts.append(("signer-other-known-digest", d))
        d = copy.deepcopy(base)
        sd(d)["signer"] = ("certificate", [G.ats[2].certificate])
        muts.append(("signer-digest-to-other-certificate", d))
    else:
        sd(d)["signer"] = ("certificate", [G.ats[2].certificate])
        muts.append(("signer-other-genuine-certificate", d))
        d = copy.deepcopy(base)
        sd(d)["signer"] = ("certificate", [A.ats[0].certificate])
        muts.append(("signer-attacker-certificate", d))
        d = copy.deepcopy(base)
        c = sd(d)["signer"][1][0]
        c["toBeSigned"]["appPermissions"] = c["toBeSigned"]["appPermissions"] + [{"psid": 1234}]
        muts.append(("certificate-permissions-extended", d))
        d = copy.deepcopy(base)
        c = sd(d)["signer"][1][0]
        c["toBeSigned"]["validityPeriod"]["start"] += 1
        muts.append(("certificate-validity-start", d))
        d = copy.deepcopy(base)
        sd(d)["signer"] = ("certificate", [sd(d)["signer"][1][0], G.aa.certificate])
        muts.append(("signer-two-certificates", d))
    n = 0xFFFFFFFF00000000FFFFFFFFFFFFFFFFBCE6FAADA7179E84F3B9CAC2FC632551
    sig = sd(base)["signature"]
    r0 = int.from_bytes(sig[1]["rSig"][1], "big")
    s0 = int.from_bytes(sig[1]["sSig"], "big")
    for lab, r, s in (("r=0", 0, s0), ("s=0", r0, 0), ("s=n", r0, n), ("s+1", r0, (s0 + 1) % (1 << 256)), ("r+1", (r0 + 1) % (1 << 256), s0), ("s=n-s", r0, n - s0),
                      ("r<->s", s0, r0)):
        d = copy.deepcopy(base)
        sd(d)["signature"] = (sig[0], {"rSig": ("x-only", r.to_bytes(32, "big")), "sSig": s.to_bytes(32, "big")})
        muts.append((f"signature-{lab}", d))
    d = copy.deepcopy(base)
    sd(d)["signature"] = (sig[0], {"rSig": ("compressed-y-0", sig[1]["rSig"][1]), "sSig": sig[1]["sSig"]})
    muts.append(("signature-r-point-form", d))
    d = copy.deepcopy(base)
    sd(d)["hashId"] = "sha384"
    muts.append(("hashId", d))
    d = copy.deepcopy(base)
    sd(d)["tbsData"]["headerInfo"]["expiryTime"] = 12345
    muts.append(("headerInfo-extra-field", d))
    out = []
    for lab, d in muts:
        try:
            out.append((lab, enc(d)))
        except Exception:  # noqa  not encodable: not a frame
            pass
    return out


def attacker_frames(clock, G, A, genuine, rng):
    """Frames signed by attacker-controlled keys."""
    from flexstack.security.certificate import SECURITY_CODER, OwnCertificate
    from vf import pki
    out = []
    for lab, g in genuine:
        base = SECURITY_CODER.decode_etsi_ts_103097_data_signed(g[4:])
        sdd = base["content"][1]
        tbs = SECURITY_CODER.encode_to_be_signed_data(sdd["tbsData"])
        # (1) signed by the attacker's ticket under the attacker's own chain, certificate attached
        d = copy.deepcopy(base)
        d["content"][1]["signer"] = ("certificate", [A.ats[0].certificate])
        d["content"][1]["signature"] = A.ats[0].sign_message(A.backend, tbs)
        out.append((f"{lab}:attacker-chain", g[:4] + SECURITY_CODER.encode_etsi_ts_103097_data_signed(d)))
        # (2) digest of the attacker's ticket (unknown to the receiver)
        d = copy.deepcopy(base)
        d["content"][1]["signer"] = ("digest", A.ats[0].as_hashedid8())
        d["content"][1]["signature"] = A.ats[0].sign_message(A.backend, tbs)
        out.append((f"{lab}:attacker-digest", g[:4] + SECURITY_CODER.encode_etsi_ts_103097_data_signed(d)))
        # (3) attacker ticket claiming the genuine AA as issuer (re-signed with the attacker's AA key)
        c = copy.deepcopy(A.ats[1].certificate)
        c["issuer"] = ("sha256AndDigest", G.aa.as_hashedid8())
        c = pki.resign(c, A.backend, A.aa.key_id)
        d = copy.deepcopy(base)
        d["content"][1]["signer"] = ("certificate", [c])
        d["content"][1]["signature"] = A.ats[1].sign_message(A.backend, tbs)
        out.append((f"{lab}:attacker-ticket-claims-genuine-aa", g[:4] + SECURITY_CODER.encode_etsi_ts_103097_data_signed(d)))
        # (4) genuine sender's digest, signature by the attacker key
        d = copy.deepcopy(base)
        d["content"][1]["signer"] = ("digest", G.ats[0].as_hashedid8())
        d["content"][1]["signature"] = A.ats[0].sign_message(A.backend, tbs)
        out.append((f"{lab}:genuine-digest-attacker-signature", g[:4] + SECURITY_CODER.encode_etsi_ts_103097_data_signed(d)))
        # (6) message signed by the attacker's AA itself, certificate attached: its issuer is the attacker's ROOT (unknown)
        d = copy.deepcopy(base)
        d["content"][1]["signer"] = ("certificate", [A.aa.certificate])
        d["content"][1]["signature"] = A.aa.sign_message(A.backend, tbs)
        out.append((f"{lab}:attacker-aa-as-signer-names-attacker-root", g[:4] + SECURITY_CODER.encode_etsi_ts_103097_data_signed(d)))
        # (7) digest signer that is the attacker root's own HashedId8
        d = copy.deepcopy(base)
        d["content"][1]["signer"] = ("digest", A.root.as_hashedid8())
        d["content"][1]["signature"] = A.ats[0].sign_message(A.backend, tbs)
        out.append((f"{lab}:attacker-root-digest-as-signer", g[:4] + SECURITY_CODER.encode_etsi_ts_103097_data_signed(d)))
        # (5) full 3-certificate chain of the attacker
        d = copy.deepcopy(base)
        d["content"][1]["signer"] = ("certificate", [A.ats[0].certificate, A.aa.certificate, A.root.certificate])
        d["content"][1]["signature"] = A.ats[0].sign_message(A.backend, tbs)
        try:
            out.append((f"{lab}:attacker-3-chain", g[:4] + SECURITY_CODER.encode_etsi_ts_103097_data_signed(d)))
        except Exception:  # noqa
            pass
    return out


def insider_frames(G, A, genuine):
    """Authentic frames of a station that holds a valid ticket (G.ats[2]) but is hostile: their SIGNED header carries
    certificates the attacker wants the receiver to learn (requestedCertificate = rogue root / rogue AA / rogue ticket)
    or certificate requests.  They may be delivered (they are authentic); what they must never do is make frames
    signed under the attacker's chain acceptable afterwards."""
    from flexstack.security.certificate import SECURITY_CODER
    lab, g = next((l, f) for l, f in genuine if l.startswith("cam"))
    base = SECURITY_CODER.decode_etsi_ts_103097_data_signed(g[4:])
    out = []
    for name, extra in (("requestedCertificate=attacker-root", {"requestedCertificate": A.root.certificate}),
                        ("requestedCertificate=attacker-aa", {"requestedCertificate": A.aa.certificate}),
                        ("requestedCertificate=attacker-ticket", {"requestedCertificate": A.ats[0].certificate}),
                        ("inlineP2pcdRequest=attacker-digests", {"inlineP2pcdRequest": [A.aa.as_hashedid8()[-3:], A.ats[0].as_hashedid8()[-3:], A.root.as_hashedid8()[-3:]]})):
        d = copy.deepcopy(base)
        sdd = d["content"][1]
        sdd["tbsData"]["headerInfo"].update(copy.deepcopy(extra))
        sdd["signer"] = ("certificate", [G.ats[2].certificate])
        try:
            sdd["signature"] = G.ats[2].sign_message(G.backend, SECURITY_CODER.encode_to_be_signed_data(sdd["tbsData"]))
            out.append((f"insider:{name}", g[:4] + SECURITY_CODER.encode_etsi_ts_103097_data_signed(d)))
        except Exception:  # noqa  not encodable with this ASN.1 module: not a frame
            pass
    return out


def unsecured_frames(clock):
    from vf.gnharness import mid_of
    from vf.vclock import tst_of
    pv = {"addr": {"m": 0, "st": 5, "mid": mid_of(9)}, "tst": tst_of(clock.now()), "lat": LAT, "lon": LON, "pai": 1, "s": 0, "h": 0}
    tc0 = {"scf": 0, "co": 0, "id": 0}
    body = b"\x07\xd1\x00\x00unsecured"
    bh = {"version": 1, "nh": 1, "lt_mult": 6, "lt_base": 2, "rhl": 1}
    out = [("unsecured-shb", W.enc_packet(bh, {"nh": 2, "ht": W.HT_TSB, "hst": 0, "tc": tc0, "mobile": 1, "pl": len(body), "mhl": 1}, {"so_pv": pv}, body)),
           ("unsecured-gbc", W.enc_packet({**bh, "rhl": 3}, {"nh": 2, "ht": W.HT_GBC, "hst": 0, "tc": tc0, "mobile": 1, "pl": len(body), "mhl": 3},
                                          {"sn": 9, "so_pv": pv, "area": {"lat": LAT, "lon": LON, "a": 900, "b": 900, "angle": 0}}, body)),
           ("unsecured-beacon", W.enc_packet(bh, {"nh": 0, "ht": W.HT_BEACON, "hst": 0, "tc": tc0, "mobile": 1, "pl": 0, "mhl": 1}, {"so_pv": pv}))]
    return out


def run_shard(spec, res):
    from vf.vclock import VClock
    from vf import pki
    rng = random.Random(spec["seed"])
    clock = VClock().install()
    try:
        G = pki.PKI(clock.now(), n_at=3, aa_psids=(36, 37, 638, 99), at_psids=(36, 37, 638, 99), name="good")
        A = pki.PKI(clock.now(), n_at=2, aa_psids="all", at_psids=(36, 37, 638, 99), name="evil")
        genuine = emit_genuine(clock, G, res)
        gset = {f for _, f in genuine}
        gdec = {lab: decode_sec(f) for lab, f in genuine}
        res.observe_set("genuine_frames", [(lab, len(f), (decode_sec(f) or {}).get("content", (0, {}))[1].get("signer", ("?",))[0]) for lab, f in genuine])
        for rnd in range(spec["rounds"]):
            hist = rng.choice(("fresh", "taught", "taught", "preloaded"))
            ether, R, sec = new_receiver(clock, G, known_ats=[pki.strip(G.ats[0])] if hist == "preloaded" else ())
            injected = []

            def deliver(frame):
                n0 = (len(R.gn_ind), len(R.btp_ind))
                ne = len(ether.errors)
                ether.inject("R", frame)
                ether.drain()
                res.count("frames_injected")
                return (len(R.gn_ind) - n0[0], len(R.btp_ind) - n0[1], len(ether.errors) - ne)
            if hist == "taught":
                # a genuine certificate-carrying frame first, so that digest-signed ones are verifiable
                first = next(f for lab, f in genuine if (gdec[lab]["content"][1]["signer"][0] == "certificate"))
                d = deliver(first)
                if d[0] >= 1:
                    res.count("genuine_delivered")
            # build this round's mutation list
            lab, g = genuine[(spec["seed"] + rnd) % len(genuine)]
            gd = gdec[lab]
            muts = []
            nbits = len(g) * 8
            if spec["all_bits"]:
                bits = range(nbits)
            else:
                bits = sorted(rng.sample(range(nbits), min(nbits, spec["bit_sample"])))
            for b in bits:
                m = bytearray(g)
                m[b // 8] ^= 0x80 >> (b % 8)
                muts.append((f"bitflip", bytes(m)))
            for _ in range(spec["byte_subs"]):
                m = bytearray(g)
                i = rng.randrange(len(g))
                m[i] = rng.choice((0, 0xFF, m[i] ^ 0x55, rng.randrange(256)))
                muts.append(("byte-substitution", bytes(m)))
            for cut in sorted(set([0, 1, 3, 4, 5, 12, len(g) // 2, len(g) - 65, len(g) - 33, len(g) - 2, len(g) - 1] + [rng.randrange(len(g)) for _ in range(6)])):
                if 0 <= cut < len(g):
                    muts.append(("truncation", g[:cut]))
            for ext in (b"\x00", b"\xff" * 3, bytes(rng.randrange(256) for _ in range(20))):
                muts.append(("extension", g + ext))
            sm = structure_mutations(g, G, A, rng)
            muts += [("structure:" + l, f) for l, f in sm]
            res.count("structure_mutations", len(sm))
            af = attacker_frames(clock, G, A, [(lab, g)], rng)
            muts += [("attacker:" + l.split(":", 1)[1], f) for l, f in af]
            res.count("attacker_chain_frames", len(af))
            uf = unsecured_frames(clock)
            muts += uf
            res.count("unsecured_frames", len(uf))
            if rnd % 2 == 0:
                # another station in this process whose trust anchors are the attacker's (a test bench or gateway serving two
                # trust domains) hears the attacker's frames first: what it learns is its own business, not R's
                ether2, R2, _sec2 = new_receiver(clock, A)
                n_other = 0
                for l_, f_ in af:
                    ether2.inject("R", f_)
                    ether2.drain()
                    n_other += 1
                res.count("rounds_with_a_neighbour_station_of_the_other_trust_domain")
                res.count("attacker_frames_accepted_by_that_station", len(R2.gn_ind))
                other_domain = True
            else:
                other_domain = False
            rng.shuffle(muts)
            # authentic frames of a hostile ticket holder, first and in between: they must not widen what is trusted
            ins = insider_frames(G, A, genuine)
            if ins and rng.random() < 0.7:
                for k_ in sorted(rng.sample(range(len(muts) // 2 + 1), min(len(ins), len(muts) // 2 + 1))):
                    muts.insert(k_, rng.choice(ins))
                if rng.random() < 0.6:
                    # directed opening: frames that make the receiver 'miss' the attacker's root / AA (they name them as unknown
                    # issuers or signers), then the authentic frames that carry exactly those certificates, then everything else
                    primes = [m_ for m_ in muts if m_[0] in ("attacker:attacker-aa-as-signer-names-attacker-root", "attacker:attacker-root-digest-as-signer", "attacker:attacker-chain")]
                    muts[0:0] = primes + ins + [m_ for m_ in ins if "attacker-aa" in m_[0]]
            # interleave genuine frames to keep the history mixed and to confirm the receiver still works
            for k, (mlab, frame) in enumerate(muts):
                if k % 40 == 17:
                    glab, gf = rng.choice(genuine)
                    d = deliver(gf)
                    if d[0] >= 1:
                        res.count("genuine_delivered")
                if mlab == "bitflip":
                    res.count("bitflips")
                if frame in gset:
                    deliver(frame)
                    continue
                if mlab.startswith("insider:"):
                    d = deliver(frame)
                    res.count("insider_frames")
                    if d[0]:
                        res.count("insider_frames_delivered")
                    continue
                md = decode_sec(frame)
                equivalent = md is not None and any(signed_view(md) == signed_view(x) for x in gdec.values())
                d = deliver(frame)
                case = {"genuine": lab, "mutation": mlab, "history": hist, "frame": frame, "genuine_frame": g}
                if equivalent:
                    res.count("equivalent_mutations")
                    continue
                res.count("must_not_deliver_checked")
                if mlab.startswith("attacker:") and any(l_.startswith("insider:") for l_, _ in muts[:k]):
                    res.count("attacker_frames_judged_after_insider_frames")
                res.case(frame + hist.encode())
                if d[0] or d[1]:
                    kind = mlab.split(":")[0] if ":" not in mlab else mlab
                    where = ""
                    if mlab in ("bitflip", "byte-substitution"):
                        diff = next(i for i in range(len(g)) if i >= len(frame) or frame[i] != g[i])
                        where = "[basic-header]" if diff < 4 else "[secured-part]"
                    detail = ""
                    if mlab in ("bitflip", "byte-substitution") and md is not None:
                        gv, mv = signed_view(gd), signed_view(md)
                        detail = "[differs-in=" + ",".join(n for n, a, b in zip(("choice", "tbsData", "signer", "signature"), gv, mv) if a != b) + "]"
                    if mlab.startswith("attacker:") and any(l_.startswith("insider:") for l_, _ in muts[:k]):
                        detail += "[after-authentic-frames-of-a-hostile-ticket-holder]"
                    if mlab.startswith("attacker:") and other_domain:
                        detail += "[a-station-of-the-attackers-trust-domain-in-the-same-process-heard-it-first]"
                    res.violation(f"C03:forged-frame-delivered[{kind}]{where}{detail}",
                                  f"{mlab} of genuine {lab} frame was handed to upper layers ({d[0]} GN indications, {d[1]} BTP handler calls), receiver history {hist}", case)
            if rnd == 0:
                res.sample({"genuine": lab, "frame_len": len(g), "history": hist, "mutations": len(muts), "example": muts[0][0]})
    finally:
        clock.uninstall()


def shards(tier, seed):
    if tier == "thorough":
        return [{"seed": seed * 83 + i, "rounds": 6, "all_bits": True, "bit_sample": 0, "byte_subs": 300} for i in range(16)]
    return [{"seed": seed * 83 + i, "rounds": 2, "all_bits": False, "bit_sample": 256, "byte_subs": 40} for i in range(6)]


def replay(case, res):
    """Re-inject the recorded frame into a fresh receiver built on a fresh PKI is not possible (keys are per run);
    the replay re-runs a shard with the recorded seed class instead."""
    run_shard({"seed": 0, "rounds": 2, "all_bits": False, "bit_sample": 256, "byte_subs": 40}, res)
