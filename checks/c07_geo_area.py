"""C07 -- geo-addressed packets are delivered exactly inside the destination area.

  F  the real Router.gn_geometric_function_f sign against the EN 302 931 oracle (two projections, azimuth rotation) for
     receivers placed on rays through the border at relative radii {0,.5,.9,.98,1.02,1.1,2,10}
  D  delivery / forwarding decisions through a real two-station run (source S, receiver R placed by the harness):
     indication iff inside; GAC never both delivered and forwarded; Annex D choice for the forwarder; area-size refusal
     of requests (GNDataConfirm) and of forwards
"""
from __future__ import annotations

import math
import random

from vf.ref import geo as G
from vf.ref import wire as W

PROPERTY = "C07"
LEVEL = "exploration"
RULE = ("areas drawn over the signed WGS-84 range (incl. |lat| up to 85 deg and the antimeridian), semi-axes 1..65535 m, azimuth 0..359, "
        "three shapes x GBC/GAC; receivers on rays through the border at relative radii {0,.5,.9,.98,1.02,1.1,2,10}; distinct by "
        "(area, receiver position); non-trivial = the oracle's two projections agree and the point is outside the tolerance band.")
ASSUMPTIONS = ["tolerance band max(1 m, 1 % of the semi-axis, disagreement between great-circle and equirectangular projection) around the border is excluded, as the property allows",
               "sender == source in the two-station runs (the implementation can only look up the source's LocTE for Annex D)"]
REQUIRED_COUNTERS = ["F.judged_in", "F.judged_out", "D.deliveries_judged", "D.forward_judged", "D.size_judged", "F.history_evaluations", "D.sequence_deliveries_judged", "D.annex-D-table-and-packet-position-disagree", "D.receiver_link_layer_refuses_next_frame"]

RADII = (0.0, 0.5, 0.9, 0.98, 1.02, 1.1, 2.0, 10.0)
SHAPE_NAMES = ("circle", "rect", "elip")


def to_int(deg):
    return int(round(deg * 1e7))


def gen_area(rng):
    r = rng.random()
    if r < 0.15:
        lat = rng.choice((-85.0, -60.0, 0.0, 1e-6, 60.0, 85.0, 89.0))
    else:
        lat = rng.uniform(-80, 80)
    r = rng.random()
    if r < 0.2:
        lon = rng.choice((179.9999, -179.9999, 180.0, -180.0, 0.0, 1e-6, -1e-6, 179.99, -179.99))
    else:
        lon = rng.uniform(-180, 180)
    shape = rng.randrange(3)
    r = rng.random()
    if r < 0.5:
        a, b = rng.randrange(5, 2000), rng.randrange(5, 2000)
    elif r < 0.8:
        a, b = rng.choice((1, 2, 10, 100, 1000, 65535, rng.randrange(1, 65536))), rng.choice((1, 2, 10, 100, 1000, 65535, rng.randrange(1, 65536)))
    else:
        a = rng.randrange(50, 3000)
        b = max(1, a // rng.choice((2, 5, 20)))      # elongated: rotation matters
    angle = rng.choice((0, 0, 45, 90, 135, 180, 270, 359, rng.randrange(360)))
    return {"lat": to_int(lat), "lon": to_int(lon), "shape": shape, "a": a, "b": b, "angle": angle}


def place(ar, phi, rho):
    """Receiver position (1/10 microdegree ints) on the ray phi (area frame) at relative radius rho."""
    bb = ar["a"] if ar["shape"] == G.CIRCLE else ar["b"]
    rad = G.border_radius(ar["shape"], ar["a"], bb, phi) * rho
    x, y = rad * math.cos(phi), rad * math.sin(phi)
    t = math.radians(ar["angle"])
    n = x * math.cos(t) - y * math.sin(t)
    e = x * math.sin(t) + y * math.cos(t)
    lat, lon = G.destination(ar["lat"] / 1e7, ar["lon"] / 1e7, n, e)
    if abs(lat) > 89.9:
        return None
    return to_int(lat), to_int(lon)


def oracle(ar, lat_i, lon_i):
    return G.classify(ar["shape"], ar["a"], ar["b"], ar["angle"], ar["lat"] / 1e7, ar["lon"] / 1e7, lat_i / 1e7, lon_i / 1e7)


def mech(ar, lat_i, lon_i):
    """Input class of a wrong in/out decision, for the mechanism key."""
    tags = []
    if ar["shape"] != G.CIRCLE and ar["angle"] % 180 != 0 and ar["a"] != ar["b"]:
        # would the verdict be right with the azimuth ignored?
        v0 = G.classify(ar["shape"], ar["a"], ar["b"], 0, ar["lat"] / 1e7, ar["lon"] / 1e7, lat_i / 1e7, lon_i / 1e7)
        v1 = oracle(ar, lat_i, lon_i)
        if v0 != v1:
            tags.append("azimuth-matters")
    if abs(lon_i - ar["lon"]) > 1800000000:
        tags.append("across-antimeridian")
    if abs(ar["lat"]) > 700000000:
        tags.append("high-latitude")
    return "[" + ",".join(tags) + "]" if tags else "[plain]"


def hst_of(kind, shape):
    from flexstack.geonet.service_access_point import GeoBroadcastHST, GeoAnycastHST
    return (GeoBroadcastHST if kind == "gbc" else GeoAnycastHST)(shape)


def run_f_case(ar, kind, points, res):
    from flexstack.geonet.router import Router
    from flexstack.geonet.mib import MIB
    from flexstack.geonet.service_access_point import Area
    router = run_f_case.router
    area = Area(latitude=ar["lat"], longitude=ar["lon"], a=ar["a"], b=ar["b"], angle=ar["angle"])
    for (lat_i, lon_i, rho) in points:
        want = oracle(ar, lat_i, lon_i)
        case = {"part": "F", "area": ar, "kind": kind, "rx": [lat_i, lon_i], "rho": rho}
        try:
            f = router.gn_geometric_function_f(hst_of(kind, ar["shape"]), area, lat_i, lon_i)
        except Exception as e:  # noqa
            res.violation(f"C07:F-raises-{type(e).__name__}", f"{e!r}", case)
            continue
        if want == "band":
            res.count("F.band_unjudged")
            continue
        got = "in" if f >= 0 else "out"
        res.count("F.judged_" + want)
        if got != want:
            res.violation(f"C07:F-says-{got}-oracle-says-{want}[{SHAPE_NAMES[ar['shape']]}]{mech(ar, lat_i, lon_i)}",
                          f"F={f!r} at relative radius {rho}", case)


def run_f(spec, res):
    from flexstack.geonet.router import Router
    from flexstack.geonet.mib import MIB
    run_f_case.router = Router(MIB())
    rng = random.Random(spec["seed"])
    for i in range(spec["areas"]):
        ar = gen_area(rng)
        kind = rng.choice(("gbc", "gac"))
        pts = []
        for _ in range(spec["rays"]):
            phi = rng.choice((0.0, math.pi / 2, math.pi, 3 * math.pi / 2, rng.uniform(0, 2 * math.pi)))
            for rho in RADII:
                p = place(ar, phi, rho)
                if p:
                    pts.append((p[0], p[1], rho))
        run_f_case(ar, kind, pts, res)
        for p in pts:
            res.case((tuple(sorted(ar.items())), p[0], p[1]))
        # history class: the same long-lived router evaluates a family of areas that share the centre at ONE receiver
        # position, one parameter changing at a time (azimuth, semi-axes, shape, GBC/GAC) and back again -- a verdict must
        # depend on the arguments only, never on what was evaluated before
        if pts and i % 2 == 0:
            q = rng.choice(pts)
            fam = [ar]
            for _ in range(rng.randrange(3, 7)):
                v = dict(rng.choice(fam))
                what = rng.choice(("angle", "angle", "angle", "ab", "shape", "a", "same"))
                if what == "angle":
                    v["angle"] = (v["angle"] + rng.choice((90, 90, 45, 37, 180, 270, 1))) % 360
                elif what == "ab":
                    v["a"], v["b"] = v["b"], v["a"]
                elif what == "shape":
                    v["shape"] = (v["shape"] + rng.choice((1, 2))) % 3
                elif what == "a":
                    v["a"] = max(1, min(65535, int(v["a"] * rng.choice((0.5, 2, 0.9, 1.1)))))
                fam.append(v)
            fam.append(ar)
            for v in fam[1:]:
                run_f_case(v, rng.choice(("gbc", "gac")), [q], res)
                res.case((tuple(sorted(v.items())), q[0], q[1], "hist"))
                res.count("F.history_evaluations")
        if i == 0:
            res.sample({"part": "F", "area": ar, "kind": kind, "receivers": pts[:4]})


# ------------------------------------------------------------------------------------------ D
def run_d_case(c, res):
    from vf.gnharness import World, gn_request, area, tc, mid_of
    from flexstack.geonet.mib import AreaForwardingAlgorithm
    from flexstack.geonet.service_access_point import ResultCode, CommonNH
    ar = c["area"]
    kind = c["kind"]
    shape = SHAPE_NAMES[ar["shape"]]
    with World() as w:
        S = w.add("S", mid_of(1), lat=c["s_pos"][0], lon=c["s_pos"][1], pai=bool(c["s_pai"]), ports=(2001,),
                  mib_over={"itsGnAreaForwardingAlgorithm": AreaForwardingAlgorithm.SIMPLE, "itsGnMaxGeoAreaSize": c["s_max"]})
        R = w.add("R", mid_of(2), lat=c["r_pos"][0], lon=c["r_pos"][1], ports=(2001,),
                  mib_over={"itsGnAreaForwardingAlgorithm": AreaForwardingAlgorithm(c["r_alg"]), "itsGnMaxGeoAreaSize": c["r_max"]})
        payload = b"\x07\xd1\x00\x00" + b"geo" + bytes([c["tag"] & 0xFF])
        req = gn_request(kind, payload, shape=shape, ar=area(ar["lat"], ar["lon"], ar["a"], ar["b"], ar["angle"]),
                         nh=CommonNH.BTP_B, hop=c["hop"])
        size = G.area_m2(ar["shape"], ar["a"], ar["a"] if ar["shape"] == G.CIRCLE else ar["b"])
        if c.get("r_ll_refuses"):
            # fault injection: the receiver's lower layer refuses its next frame (interface busy) -- what the station
            # hands to its own upper layer does not depend on whether it could pass the packet on
            w.ether.nodes["R"].fail_next = "sending"
            res.count("D.receiver_link_layer_refuses_next_frame")
        try:
            conf = S.router.gn_data_request(req)
            w.settle()
            w.clock.advance(0.3)
            w.settle()
        except Exception as e:  # noqa
            res.violation(f"C07:request-or-reception-raises-{type(e).__name__}", f"{e!r}", c)
            return
        errs = [e for e in w.ether.errors]
        if errs:
            res.violation(f"C07:request-or-reception-raises-{type(errs[0][3]).__name__}", f"{errs[0][3]!r}", c)
            return
        s_tx = [p for (_, _, s, p) in w.ether.wire if s == "S"]
        r_tx = [p for (_, _, s, p) in w.ether.wire if s == "R"]
        # ---- area size control at the source
        lim = c["s_max"] * 1e6
        if abs(size - lim) > 1e-6 * lim:
            res.count("D.size_judged")
            if size > lim:
                if conf.result_code != ResultCode.GEOGRAPHICAL_SCOPE_TOO_LARGE or s_tx:
                    res.violation("C07:oversize-area-request-not-refused", f"area {size:.0f} m2 > {lim:.0f}: confirm {conf.result_code}, {len(s_tx)} packets sent", c)
                return
            if conf.result_code != ResultCode.ACCEPTED or not s_tx:
                res.violation("C07:legal-area-request-refused-or-not-sent", f"area {size:.0f} m2 <= {lim:.0f}: confirm {conf.result_code}, sent {len(s_tx)}", c)
                return
        else:
            return
        # ---- delivery
        rv = oracle(ar, *c["r_pos"])
        sv = oracle(ar, *c["s_pos"])
        delivered = len(R.gn_ind)
        if rv == "band":
            res.count("D.band_unjudged")
            return
        res.count("D.deliveries_judged")
        res.count(f"D.{kind}.{rv}")
        m = mech(ar, *c["r_pos"])
        if rv == "in" and delivered != 1:
            res.violation(f"C07:inside-receiver-not-delivered[{kind}][{shape}]{m}" if delivered == 0 else f"C07:delivered-more-than-once[{kind}]",
                          f"receiver inside ({c['rho']}), indications {delivered}", c)
        if rv == "out" and delivered != 0:
            res.violation(f"C07:outside-receiver-delivered[{kind}][{shape}]{m}", f"receiver outside ({c['rho']}), indications {delivered}", c)
        if delivered == 1:
            ind = R.gn_ind[0][1]
            da = ind.destination_area
            if da is None or (da.latitude, da.longitude, da.a, da.b, da.angle) != (ar["lat"], ar["lon"], ar["a"], ar["b"], ar["angle"]):
                res.violation("C07:indicated-destination-area-differs", f"{da}", c)
        # ---- forwarding (scf = 0, R has S as its only neighbour candidate)
        rlim = c["r_max"] * 1e6
        if abs(size - rlim) <= 1e-6 * rlim:
            return
        rhl_allows = c["hop_eff"] > 1
        if kind == "gac" and rv == "in":
            res.count("D.forward_judged")
            if r_tx and delivered:
                res.violation("C07:gac-delivered-and-forwarded", f"GAC inside the area: delivered and {len(r_tx)} transmissions", c)
            return
        if size > rlim:
            res.count("D.forward_judged")
            res.count("D.forward_oversize")
            if r_tx:
                res.violation("C07:oversize-area-forwarded", f"area {size:.0f} m2 > forwarder limit {rlim:.0f}: forwarded", c)
            return
        if not rhl_allows:
            return
        if rv == "in":            # GBC, area forwarding
            want_fwd = True
            why = "annex-D:ego-inside->area-forwarding"
        else:
            if sv == "band":
                return
            if c["s_pai"] and sv == "in":
                want_fwd = False
                why = "annex-D:ego-outside,sender-inside->discard"
            else:
                want_fwd = True
                why = "annex-D:ego-outside,sender-outside-or-unknown->non-area-forwarding"
        if c.get("r_ll_refuses"):
            if r_tx and not want_fwd:
                res.violation(f"C07:forwarding-choice-differs[{kind}][{why}][after-refused-frame]", "transmitted although Annex D says discard", c)
            return          # the one transmission attempt was refused (or none was due): nothing on the air to judge
        res.count("D.forward_judged")
        res.count(f"D.{why}")
        if bool(r_tx) != want_fwd:
            ms = mech(ar, *c["s_pos"])
            both = "[" + ",".join(sorted(set((m + "," + ms).replace("[", "").replace("]", "").split(",")) - {"plain"})) + "]"
            res.violation(f"C07:forwarding-choice-differs[{kind}][{why}]{both if both != '[]' else '[plain]'}",
                          f"forwarded={bool(r_tx)} expected {want_fwd} (receiver {rv}, sender {sv}, pai {c['s_pai']})", c)
        if len(r_tx) > 1:
            res.violation("C07:forwarded-more-than-once", f"{len(r_tx)} transmissions", c)


def run_dseq_case(c, res):
    """Several geo packets in a row to ONE long-lived receiver: areas sharing the centre and differing in azimuth, semi-axes,
    shape or transport (and a receiver that may move in between).  Each packet is judged on its own."""
    from vf.gnharness import World, gn_request, area, mid_of
    from flexstack.geonet.mib import AreaForwardingAlgorithm
    from flexstack.geonet.service_access_point import CommonNH
    with World() as w:
        S = w.add("S", mid_of(1), lat=c["s_pos"][0], lon=c["s_pos"][1], pai=bool(c["s_pai"]), ports=(2001,),
                  mib_over={"itsGnAreaForwardingAlgorithm": AreaForwardingAlgorithm.SIMPLE, "itsGnMaxGeoAreaSize": 100000})
        R = w.add("R", mid_of(2), lat=c["r_pos"][0], lon=c["r_pos"][1], ports=(2001,),
                  mib_over={"itsGnAreaForwardingAlgorithm": AreaForwardingAlgorithm(c["r_alg"]), "itsGnMaxGeoAreaSize": 100000})
        pos = list(c["r_pos"])
        for k, st in enumerate(c["steps"]):
            if st.get("move"):
                pos = list(st["move"])
                R.set_position(pos[0], pos[1])
            ar = st["area"]
            payload = b"\x07\xd1\x00\x00" + b"seq%d" % k
            n0 = len(R.gn_ind)
            try:
                S.router.gn_data_request(gn_request(st["kind"], payload, shape=SHAPE_NAMES[ar["shape"]], ar=area(ar["lat"], ar["lon"], ar["a"], ar["b"], ar["angle"]),
                                                    nh=CommonNH.BTP_B, hop=c["hop"]))
                w.settle()
                w.clock.advance(0.3)
                w.settle()
            except Exception as e:  # noqa
                res.violation(f"C07:request-or-reception-raises-{type(e).__name__}", f"{e!r}", c)
                return
            if w.ether.errors:
                res.violation(f"C07:request-or-reception-raises-{type(w.ether.errors[0][3]).__name__}", f"{w.ether.errors[0][3]!r}", c)
                return
            rv = oracle(ar, *pos)
            got = [ind for (_, ind) in R.gn_ind[n0:] if bytes(ind.data) == payload]
            if rv == "band":
                res.count("D.band_unjudged")
                continue
            res.count("D.sequence_deliveries_judged")
            res.count("D.deliveries_judged")
            m = mech(ar, *pos)
            first = "first-packet" if k == 0 else "later-packet-of-a-sequence"
            if rv == "in" and len(got) != 1:
                res.violation(f"C07:inside-receiver-not-delivered[{st['kind']}][{SHAPE_NAMES[ar['shape']]}]{m}[{first}]" if not got else f"C07:delivered-more-than-once[{st['kind']}]",
                              f"packet {k} of the sequence: receiver inside, indications {len(got)}", {**c, "_step": k})
            if rv == "out" and got:
                res.violation(f"C07:outside-receiver-delivered[{st['kind']}][{SHAPE_NAMES[ar['shape']]}]{m}[{first}]",
                              f"packet {k} of the sequence: receiver outside, indications {len(got)}", {**c, "_step": k})


def run_dstale_case(c, res):
    """Annex D with a sender whose position in the receiver's location table is NEWER than the one in the packet: the
    source builds a GBC/GAC packet at P0, the frame is held back on the air, the source moves to P1 and beacons (the receiver
    learns P1), then the held frame arrives.  The sender position of Annex D is the location-table one (P1)."""
    from vf.gnharness import World, gn_request, area, mid_of
    from flexstack.geonet.mib import AreaForwardingAlgorithm
    from flexstack.geonet.service_access_point import CommonNH
    ar, kind = c["area"], c["kind"]
    with World() as w:
        S = w.add("S", mid_of(1), lat=c["p0"][0], lon=c["p0"][1], pai=bool(c["pai0"]), ports=(2001,),
                  mib_over={"itsGnAreaForwardingAlgorithm": AreaForwardingAlgorithm.SIMPLE, "itsGnMaxGeoAreaSize": 100000})
        R = w.add("R", mid_of(2), lat=c["r_pos"][0], lon=c["r_pos"][1], ports=(2001,),
                  mib_over={"itsGnAreaForwardingAlgorithm": AreaForwardingAlgorithm(c["r_alg"]), "itsGnMaxGeoAreaSize": 100000})
        try:
            S.router.gn_data_request(gn_request(kind, b"\x07\xd1\x00\x00stale", shape=SHAPE_NAMES[ar["shape"]],
                                                ar=area(ar["lat"], ar["lon"], ar["a"], ar["b"], ar["angle"]), nh=CommonNH.BTP_B, hop=5))
            held = [q for q in w.ether.queue if q[2] == "R"]
            w.ether.queue.clear()
            if not held:
                return
            w.clock.advance(1.0)
            S.set_position(c["p1"][0], c["p1"][1], pai=bool(c["pai1"]))
            S.router.gn_data_request_beacon()
            w.settle()
            n_tx0 = len([1 for (_, _, s_, _) in w.ether.wire if s_ == "R"])
            w.ether.inject("R", held[0][3])
            w.settle()
            w.clock.advance(0.3)
            w.settle()
        except Exception as e:  # noqa
            res.violation(f"C07:request-or-reception-raises-{type(e).__name__}", f"{e!r}", c)
            return
        if w.ether.errors:
            res.violation(f"C07:request-or-reception-raises-{type(w.ether.errors[0][3]).__name__}", f"{w.ether.errors[0][3]!r}", c)
            return
        rv = oracle(ar, *c["r_pos"])
        sv1 = oracle(ar, *c["p1"])
        sv0 = oracle(ar, *c["p0"])
        if rv != "out" or "band" in (sv0, sv1):
            res.count("D.band_unjudged")
            return
        r_tx = len([1 for (_, _, s_, _) in w.ether.wire if s_ == "R"]) - n_tx0
        if R.gn_ind:
            res.violation(f"C07:outside-receiver-delivered[{kind}][{SHAPE_NAMES[ar['shape']]}]{mech(ar, *c['r_pos'])}", "receiver outside, packet delivered", c)
        want_fwd = not (c["pai1"] and sv1 == "in")
        would_with_packet_pv = not (c["pai0"] and sv0 == "in")
        res.count("D.forward_judged")
        res.count("D.annex-D-with-newer-table-position-judged")
        if want_fwd != would_with_packet_pv:
            res.count("D.annex-D-table-and-packet-position-disagree")
        if bool(r_tx) != want_fwd:
            res.violation(f"C07:forwarding-choice-differs[{kind}][annex-D:sender-position-is-the-newer-location-table-entry]"
                          f"[{'table-says-discard' if not want_fwd else 'table-says-forward'}]",
                          f"forwarded={bool(r_tx)} expected {want_fwd}: location table has the sender {sv1} (PAI {c['pai1']}), the delayed packet says {sv0} (PAI {c['pai0']})", c)


def gen_dstale(rng):
    ar = gen_area(rng)
    ar["a"], ar["b"] = min(max(ar["a"], 20), 2500), min(max(ar["b"], 20), 2500)
    rp = place(ar, rng.uniform(0, 2 * math.pi), rng.choice((2.0, 3.0)))
    r0, r1 = rng.choice(((0.5, 2.0), (2.0, 0.5), (0.5, 0.6), (2.0, 2.5), (0.3, 1.5), (1.5, 0.3)))
    phi = rng.uniform(0, 2 * math.pi)
    p0, p1 = place(ar, phi, r0), place(ar, phi + rng.choice((0.0, 0.5)), r1)
    if rp is None or p0 is None or p1 is None:
        return None
    return {"part": "Dstale", "area": ar, "kind": rng.choice(("gbc", "gac", "gac")), "r_pos": list(rp), "p0": list(p0), "p1": list(p1),
            "pai0": rng.choice((1, 1, 0)), "pai1": rng.choice((1, 1, 0)), "r_alg": rng.choice((1, 1, 2, 0))}


def gen_dseq(rng):
    ar = gen_area(rng)
    if ar["shape"] == G.CIRCLE or ar["a"] == ar["b"]:
        ar["shape"] = rng.choice((1, 2))
        ar["b"] = max(1, ar["a"] // rng.choice((2, 5, 10)))
    ar["a"] = min(ar["a"], 3000)
    ar["b"] = min(ar["b"], 3000)
    phi = rng.choice((0.0, math.pi / 2, rng.uniform(0, 2 * math.pi)))
    rp = place(ar, phi, rng.choice((0.5, 0.9, 1.1, 2.0)))
    sp = place(ar, rng.uniform(0, 2 * math.pi), rng.choice((0.0, 0.3, 1.5)))
    if rp is None or sp is None:
        return None
    steps = []
    cur = dict(ar)
    for k in range(rng.randrange(2, 5)):
        st = {"area": dict(cur), "kind": rng.choice(("gbc", "gac"))}
        if k and rng.random() < 0.2:
            mv = place(ar, rng.uniform(0, 2 * math.pi), rng.choice((0.5, 0.9, 1.1, 2.0)))
            if mv:
                st["move"] = list(mv)
        steps.append(st)
        what = rng.choice(("angle", "angle", "angle", "ab", "shape", "same"))
        cur = dict(cur)
        if what == "angle":
            cur["angle"] = (cur["angle"] + rng.choice((90, 90, 45, 37, 270))) % 360
        elif what == "ab":
            cur["a"], cur["b"] = cur["b"], cur["a"]
        elif what == "shape":
            cur["shape"] = (cur["shape"] + rng.choice((1, 2))) % 3
    return {"part": "Dseq", "r_pos": list(rp), "s_pos": list(sp), "s_pai": rng.randrange(2), "hop": rng.choice((1, 2, 5)), "r_alg": rng.choice((1, 1, 2, 0)), "steps": steps}


def gen_d(rng):
    ar = gen_area(rng)
    phi = rng.uniform(0, 2 * math.pi)
    rho = rng.choice(RADII)
    rp = place(ar, phi, rho)
    sphi = rng.uniform(0, 2 * math.pi)
    srho = rng.choice((0.0, 0.3, 0.7, 1.5, 3.0))
    sp = place(ar, sphi, srho)
    if rp is None or sp is None:
        return None
    hop = rng.choice((1, 2, 5, 10))
    return {"part": "D", "area": ar, "kind": rng.choice(("gbc", "gac")), "r_pos": list(rp), "rho": rho, "s_pos": list(sp), "s_rho": srho,
            "s_pai": rng.randrange(2), "hop": hop, "hop_eff": hop if hop > 1 else 10, "r_ll_refuses": rng.random() < 0.15,
            "s_max": rng.choice((10, 10, 1, 100, 100000)), "r_max": rng.choice((10, 10, 1, 100000)), "r_alg": rng.choice((1, 1, 2, 0)),
            "tag": rng.randrange(256)}


def run_d(spec, res):
    rng = random.Random(spec["seed"])
    n = 0
    while n < spec["cases"]:
        c = gen_d(rng)
        if c is None:
            continue
        n += 1
        run_d_case(c, res)
        res.case(repr(c))
        if n % 3 == 1:
            cst = gen_dstale(rng)
            if cst is not None:
                run_dstale_case(cst, res)
                res.case(repr(cst))
        if n % 3 == 0:
            cs = gen_dseq(rng)
            if cs is not None:
                run_dseq_case(cs, res)
                res.case(repr(cs))
        if n == 1:
            res.sample(c)


def shards(tier, seed):
    if tier == "thorough":
        return ([{"part": "F", "seed": seed * 23 + i, "areas": 9000, "rays": 5} for i in range(16)] +
                [{"part": "D", "seed": seed * 29 + i, "cases": 5000} for i in range(16)])
    return ([{"part": "F", "seed": seed * 23 + i, "areas": 200, "rays": 3} for i in range(4)] +
            [{"part": "D", "seed": seed * 29 + i, "cases": 120} for i in range(8)])


def run_shard(spec, res):
    (run_f if spec["part"] == "F" else run_d)(spec, res)


def replay(case, res):
    if case.get("part") == "F":
        from flexstack.geonet.router import Router
        from flexstack.geonet.mib import MIB
        run_f_case.router = Router(MIB())
        run_f_case(case["area"], case["kind"], [(case["rx"][0], case["rx"][1], case["rho"])], res)
    elif case.get("part") == "Dstale":
        run_dstale_case(case, res)
    elif case.get("part") == "Dseq":
        run_dseq_case({k: v for k, v in case.items() if not k.startswith("_")}, res)
    else:
        run_d_case(case, res)
