"""C10 -- CAM and VAM generation follow the timing and trigger rules of their standards.

CAM: the real CAMTransmissionManagement runs under the virtual clock (its T_CheckCamGen threading.Timer rebound to the
virtual timer); trajectories are fed as timed TPV reports through location_service_callback; every BTPDataRequest handed to
a recording BTP router is time-stamped, decoded with the CAM coder and judged by a reference replay of the same report
stream and check instants (min/max spacing, dynamics triggers at the first eligible check, LF-container cadence, start/stop,
latest report, generationDeltaTime).
VAM: the real VAMTransmissionManagement is driven report by report; every VAM is decoded and judged (first report after
activation, T_GenVamMin on report timestamps, T_GenVamMax while reports flow, LF-container cadence).
"""
from __future__ import annotations

import datetime
import math
import random

PROPERTY = "C10"
LEVEL = "exploration"
RULE = ("trajectories = timed TPV report streams (constant, accelerating, turning through 0/360, stop-and-go, dropouts, missing optional keys), "
        "1-50 Hz, start/stop/restart, timestamps across generationDeltaTime wraps; distinct by hash of the scenario; non-trivial = at least one "
        "message was emitted and judged against the reference rules.")
ASSUMPTIONS = ["thresholds are compared with 1e-9 hysteresis on the float inputs the code saw; a report arriving exactly at a check instant may be ordered either way",
               "error estimates (epx/epy/epv/epd) are kept in their nominal ranges here; C11 decides what extreme values do to message generation",
               "VAM LF cadence uses the wall clock in the implementation: time.time is the virtual clock, advanced in step with the report timestamps"]
REQUIRED_COUNTERS = ["cam.messages", "cam.refused_by_lower_layers", "cam.checks_replayed", "cam.must_send_checked", "cam.must_not_send_checked", "cam.lf_checked", "vam.messages", "vam.must_send_checked",
                     "vam.min_gap_checked", "vam.lf_checked"]

ITS_EPOCH_MS = 1072915200000


def iso(t):
    return datetime.datetime.fromtimestamp(t, datetime.timezone.utc).isoformat().replace("+00:00", "Z")


def hav(lat1, lon1, lat2, lon2):
    R = 6371000.0
    p1, p2 = math.radians(lat1), math.radians(lat2)
    dl = math.radians(lon2 - lon1)
    a = math.sin((p2 - p1) / 2) ** 2 + math.cos(p1) * math.cos(p2) * math.sin(dl / 2) ** 2
    return 2 * R * math.asin(min(1.0, math.sqrt(a)))


def gen_traj(rng, t0, dur, rate_hz, kind, time_field=None):
    """List of (t, tpv) reports.  time_field: None (report time = delivery time), 'coarse' (receiver reports whole seconds, so
    several reports share one time) or 'step-back' (from some report on the reported time is k seconds behind: leap-second /
    UTC-offset correction of the receiver)."""
    step_k = rng.choice((1.0, 2.0, 18.0)) if time_field == "step-back" else 0.0
    step_at = rng.randrange(4, 14)
    lat, lon = rng.uniform(-60, 60), rng.uniform(-170, 170)
    speed = rng.choice((0.0, 3.0, 13.9, 30.0))
    track = rng.choice((0.0, 2.0, 90.0, 358.0, rng.uniform(0, 360)))
    reps = []
    t = t0 + rng.uniform(0, 0.05)
    dt = 1.0 / rate_hz
    n = 0
    pause_at = rng.randrange(3, 12)
    if kind in ("long-pause", "constant-still"):
        speed = 0.0            # standing still: no dynamics trigger can hide the missing time trigger
    while t < t0 + dur:
        if kind == "accelerating":
            speed = max(0.0, speed + rng.choice((0.0, 0.3, 0.6, 1.2)) * dt * 5)
        elif kind == "turning":
            track = (track + rng.choice((2.0, 5.0, 10.0)) * dt * 4) % 360.0
        elif kind == "turning-back":
            track = (track - rng.choice((3.0, 9.0)) * dt * 4) % 360.0
        elif kind == "stop-and-go":
            speed = 8.0 if int((t - t0) / 3) % 2 == 0 else 0.0
        elif kind == "jitter":
            speed = max(0.0, speed + rng.uniform(-0.7, 0.7))
            track = (track + rng.uniform(-5, 5)) % 360.0
        d = speed * dt
        lat += math.degrees(d * math.cos(math.radians(track)) / 6371000.0)
        lon += math.degrees(d * math.sin(math.radians(track)) / (6371000.0 * max(0.2, math.cos(math.radians(lat)))))
        rt_ = math.floor(t) if time_field == "coarse" else (t - step_k if (time_field == "step-back" and n >= step_at) else t)
        tpv = {"class": "TPV", "mode": 3, "time": iso(rt_), "lat": lat, "lon": lon, "altHAE": 120.0 + n * 0.01, "speed": speed, "track": track,
               "epx": 2.0, "epy": 3.0, "epv": 4.0, "epd": 1.5}
        drop = None
        if kind == "missing-keys" and rng.random() < 0.4:
            drop = rng.choice(("speed", "track", "altHAE", "epx", "epd", "epv"))
            tpv.pop(drop)
        reps.append((t, tpv))
        if kind == "dropouts" and rng.random() < 0.15:
            t += rng.choice((0.7, 1.5, 3.0, 6.5, 65.6))     # the gap follows this report (65.6 s: beyond one generationDeltaTime cycle)
        if kind == "long-pause" and n == pause_at:
            # the next report comes one generationDeltaTime cycle (65 536 ms) plus less than T_GenVamMin after this one
            t += 65.536 + rng.uniform(0.0, 0.09) - dt
        t += dt
        n += 1
    return reps


# ------------------------------------------------------------------------------------------ CAM
class RecBTP:
    """Recording BTP router; `faults` = ordinals of the btp_data_request calls at which the lower layers raise."""

    def __init__(self, clock, faults=()):
        self.clock = clock
        self.reqs = []
        self.faults = set(faults)
        self.calls = 0
        self.failed = []

    def btp_data_request(self, request):
        k = self.calls
        self.calls += 1
        if k in self.faults:
            self.failed.append(self.clock.now())
            raise RuntimeError("injected fault: lower layers refuse the request")
        self.reqs.append((self.clock.now(), request))

    def register_indication_callback_btp(self, port, callback):
        pass


def run_cam_case(c, res):
    import threading
    import types
    from vf.vclock import VClock, VTimer
    from flexstack.facilities.ca_basic_service import cam_transmission_management as ctm
    from flexstack.facilities.ca_basic_service.cam_coder import CAMCoder
    rng = random.Random(c["seed"])
    t_base = c["t0"]
    clock = VClock(t_base).install()
    saved_threading = ctm.threading
    ctm.threading = types.SimpleNamespace(Timer=VTimer, Lock=threading.Lock, RLock=threading.RLock)
    random.seed(c["seed"])
    try:
        coder = CAMCoder()
        btp = RecBTP(clock, c.get("faults") or ())
        vd = ctm.VehicleData(station_id=rng.randrange(1, 1 << 31), station_type=rng.choice((5, 5, 6, 10, 3)), vehicle_role=rng.choice((0, 0, 6)))
        tm = ctm.CAMTransmissionManagement(btp, coder, vd)
        reps = gen_traj(rng, t_base, c["dur"], c["rate"], c["kind"], c.get("time_field"))
        if c.get("time_field"):
            res.count(f"cam.histories_with_report_time_{c['time_field']}")
        # lifecycle: start / stop / restart instants
        life = [("start", t_base + c["start"])]
        if c["stop"] is not None:
            life.append(("stop", t_base + c["stop"]))
            if c["restart"] is not None:
                life.append(("start", t_base + c["restart"]))
        events = sorted([(t, 0, "life", k) for k, t in life] + [(t, 1, "rep", tpv) for t, tpv in reps], key=lambda e: (e[0], e[1]))
        active = False
        active_windows = []
        rep_log = []
        for (t, _, kind, x) in events:
            clock.run_until(t)
            if kind == "life":
                if x == "start":
                    tm.start()
                    active = True
                    active_windows.append([t, None])
                else:
                    tm.stop()
                    active = False
                    active_windows[-1][1] = t
            else:
                tm.location_service_callback(x)
                rep_log.append((t, x))
        clock.run_until(t_base + c["dur"] + 0.5)
        tm.stop()
        if active_windows and active_windows[-1][1] is None:
            active_windows[-1][1] = clock.now()
        # check instants actually used by the service (virtual timer log)
        checks = [tt for (tt, what, name, fn) in clock.log if what == "fire" and fn == "_check_cam_conditions"]
        ctx = {"case": c}
        # ------------------------------------------------------------ decode what was sent
        sent = []
        for (ts, req) in btp.reqs:
            try:
                d = coder.decode(req.data)
            except Exception as e:  # noqa
                res.violation("C10:cam-payload-undecodable", f"{e!r}", ctx)
                continue
            if req.destination_port != 2001:
                res.violation("C10:cam-not-on-port-2001", f"{req.destination_port}", ctx)
            sent.append((ts, d))
            res.count("cam.messages")
        # nothing before start / after stop
        for ts, d in sent:
            if not any(w[0] <= ts <= w[1] + 1e-9 for w in active_windows):
                res.violation("C10:cam-sent-while-service-inactive", f"CAM at +{ts - t_base:.3f} s, active windows {[(w[0] - t_base, w[1] - t_base) for w in active_windows]}", ctx)
        for (a, _), (b, _) in zip(sent, sent[1:]):
            if round((b - a) * 1000) < 100:
                res.count("cam.must_not_send_checked")
                res.violation("C10:cams-closer-than-T_GenCamMin[across-stop-restart]" if any(w[1] is not None and a <= w[1] <= b for w in active_windows) else "C10:cams-closer-than-T_GenCamMin",
                              f"CAMs at +{a - t_base:.3f} and +{b - t_base:.3f} s", ctx)
            else:
                res.count("cam.must_not_send_checked")
        # ------------------------------------------------------------ reference replay per activation window
        last_overall = None
        for (w0, w1) in active_windows:
            wchecks = [t for t in checks if w0 <= t <= w1]
            wsent = [(ts, d) for ts, d in sent if w0 <= ts <= w1 + 1e-9]
            last = None       # dict(t, tpv, lf_t)
            si = 0
            for tc in wchecks:
                res.count("cam.checks_replayed")
                cur = [r for r in rep_log if r[0] <= tc + 1e-12]
                if not cur:
                    continue
                # a report that arrives exactly at the check instant may be seen or not
                amb = len([r for r in rep_log if abs(r[0] - tc) < 1e-9]) > 0
                tpv = cur[-1][1]
                here = [x for x in wsent if abs(x[0] - tc) < 1e-9]
                # a CAM that the lower layers refused was not handed over: it does not count as a CAM (nor as the last one
                # that carried the low-frequency container), and the rules keep running from the last one that was
                attempted = any(abs(tf - tc) < 1e-9 for tf in btp.failed)
                if attempted:
                    res.count("cam.refused_by_lower_layers")
                now_ms = int(tc * 1000)
                if last is None:
                    verdict = "must"
                    why = "first-check-with-data"
                    if last_overall is not None and now_ms - int(last_overall * 1000) < 100:
                        verdict, why = "must_not", "closer-than-T_GenCamMin"       # restarted right after a CAM
                else:
                    el = now_ms - int(last["t"] * 1000)
                    ltp = last["tpv"]
                    dyn = False
                    margin = 1e-9
                    close = False
                    if "track" in tpv and "track" in ltp:
                        dh = abs(tpv["track"] - ltp["track"])
                        dh = 360.0 - dh if dh > 180.0 else dh
                        dyn |= dh > 4.0 + margin
                        close |= abs(dh - 4.0) <= 1e-6
                    if all(k in tpv for k in ("lat", "lon")) and all(k in ltp for k in ("lat", "lon")):
                        dp = hav(ltp["lat"], ltp["lon"], tpv["lat"], tpv["lon"])
                        dyn |= dp > 4.0 + 1e-6
                        close |= abs(dp - 4.0) <= 1e-3
                    if "speed" in tpv and "speed" in ltp:
                        ds = abs(tpv["speed"] - ltp["speed"])
                        dyn |= ds > 0.5 + margin
                        close |= abs(ds - 0.5) <= 1e-9
                    if el < 100:
                        verdict, why = "must_not", "closer-than-T_GenCamMin"
                    elif el > 1000:
                        # at el == 1000 the next check (one check period later) is still within T_GenCamMax + one period
                        verdict, why = "must", "T_GenCamMax-plus-one-check-period-elapsed"
                    elif dyn and "track" in ltp:
                        verdict, why = "must", "dynamics-exceeded-after-T_GenCamMin"
                    else:
                        verdict, why = "may", ""
                    if close and verdict == "must" and why.startswith("dynamics"):
                        verdict = "may"
                if amb and verdict == "must" and last is not None and not here:
                    verdict = "may"
                if verdict == "must":
                    res.count("cam.must_send_checked")
                    if not here and not attempted:
                        res.violation(f"C10:cam-not-generated[{why}]", f"no CAM at check +{tc - t_base:.3f} s ({why}); last CAM at +{(last['t'] - t_base) if last else float('nan'):.3f} s", ctx)
                elif verdict == "must_not":
                    res.count("cam.must_not_send_checked")
                    if here:
                        res.violation(f"C10:cam-generated-although-{why}", f"CAM at +{tc - t_base:.3f} s, previous at +{(last['t'] if last else last_overall) - t_base:.3f} s", ctx)
                if here:
                    ts, d = here[0]
                    # which report does it reflect?  the latest (or, when one arrived at this very instant, the one before)
                    cands = [cur[-1][1]] + ([cur[-2][1]] if amb and len(cur) > 1 else [])
                    gd = d["cam"]["generationDeltaTime"]
                    ok_content = False
                    for cand in cands:
                        rt = datetime.datetime.fromisoformat(cand["time"].replace("Z", "+00:00")).timestamp()
                        want_gd = int(round(rt * 1000) - ITS_EPOCH_MS + 5000) % 65536
                        pos = d["cam"]["camParameters"]["basicContainer"]["referencePosition"]
                        if min((gd - want_gd) % 65536, (want_gd - gd) % 65536) <= 1 and abs(pos["latitude"] - int(cand["lat"] * 1e7)) <= 1 and abs(pos["longitude"] - int(cand["lon"] * 1e7)) <= 1:
                            ok_content = True
                            tpv = cand
                            # dynamics of THIS report: a field the report lacks is 'unavailable', not an older report's value
                            hfc = d["cam"]["camParameters"]["highFrequencyContainer"][1]
                            sv, hv = hfc["speed"]["speedValue"], hfc["heading"]["headingValue"]
                            want_s = 16383 if "speed" not in cand else min(16382, int(round(cand["speed"] * 100)))
                            want_h = 3601 if "track" not in cand else int(round(cand["track"] * 10)) % 3600
                            res.count("cam.dynamics_content_checked")
                            if abs(sv - want_s) > 1 and not ("speed" in cand and abs(sv - int(cand["speed"] * 100)) <= 1):
                                res.violation("C10:cam-does-not-reflect-latest-report[speed" + ("-missing-in-report]" if "speed" not in cand else "]"),
                                              f"CAM at +{tc - t_base:.3f} s carries speedValue {sv}, the latest report says {cand.get('speed')}", ctx)
                            if min((hv - want_h) % 3600, (want_h - hv) % 3600) > 1 and not (hv == 3601 and want_h == 3601) and not ("track" in cand and hv in (3600, 0) and want_h in (0, 3599, 3600)):
                                res.violation("C10:cam-does-not-reflect-latest-report[heading" + ("-missing-in-report]" if "track" not in cand else "]"),
                                              f"CAM at +{tc - t_base:.3f} s carries headingValue {hv}, the latest report says {cand.get('track')}", ctx)
                    if not ok_content:
                        res.violation("C10:cam-does-not-reflect-latest-report", f"CAM at +{tc - t_base:.3f} s: generationDeltaTime {gd}, position {pos['latitude']},{pos['longitude']}; latest report {cands[0]['time']}", ctx)
                    has_lf = "lowFrequencyContainer" in d["cam"]["camParameters"]
                    res.count("cam.lf_checked")
                    if last is None:
                        if not has_lf:
                            res.violation("C10:first-cam-without-low-frequency-container", "", ctx)
                        lf_t = tc
                    else:
                        since_lf = int(tc * 1000) - int(last["lf_t"] * 1000)
                        if since_lf >= 500 and not has_lf:
                            after_fault = any(last["t"] < tf < tc for tf in btp.failed)
                            res.violation("C10:cam-lf-container-missing-after-500ms" + ("[after-a-cam-the-lower-layers-refused]" if after_fault else ""),
                                          f"{since_lf} ms since the last CAM that carried the LF container", ctx)
                        if since_lf < 500 and has_lf:
                            res.violation("C10:cam-lf-container-earlier-than-500ms", f"{since_lf} ms since the last LF container", ctx)
                        lf_t = tc if has_lf else last["lf_t"]
                    last = {"t": tc, "tpv": tpv, "lf_t": lf_t}
                    last_overall = tc
            # CAMs that were sent at instants that are not check instants
            for ts, d in wsent:
                if not any(abs(ts - tc) < 1e-9 for tc in wchecks):
                    res.violation("C10:cam-sent-outside-a-check-instant", f"+{ts - t_base:.4f}", ctx)
        res.case(repr(c))
    finally:
        ctm.threading = saved_threading
        clock.heap.clear()
        clock.uninstall()


# ------------------------------------------------------------------------------------------ VAM
def run_vam_case(c, res):
    import time as real_time
    from vf.vclock import VClock
    from flexstack.facilities.vru_awareness_service import vam_transmission_management as vtm
    from flexstack.facilities.vru_awareness_service.vam_coder import VAMCoder
    rng = random.Random(c["seed"])
    t_base = c["t0"]
    clock = VClock(t_base).install()
    saved_time = real_time.time
    real_time.time = clock.now
    try:
        coder = VAMCoder()
        btp = RecBTP(clock)
        tm = vtm.VAMTransmissionManagement(btp, coder, vtm.DeviceDataProvider(station_id=rng.randrange(1, 1 << 31), station_type=rng.choice((1, 2))))
        reps = gen_traj(rng, t_base, c["dur"], c["rate"], c["kind"], c.get("time_field"))
        if c.get("time_field"):
            res.count(f"vam.histories_with_report_time_{c['time_field']}")
        ctx = {"case": c}
        last_vam_t = None
        last_lf_t = None
        prev_rt = None
        stepped = False      # the reported time went backwards since the last VAM: 'apart on the reports' timestamps' is undefined
        for i, (t, tpv) in enumerate(reps):
            clock.run_until(t)
            n0 = len(btp.reqs)
            rt_now = datetime.datetime.fromisoformat(tpv["time"].replace("Z", "+00:00")).timestamp()
            if prev_rt is not None and rt_now < prev_rt:
                stepped = True
                res.count("vam.reported_time_went_backwards")
            prev_rt = rt_now
            try:
                tm.location_service_callback(tpv)
            except Exception as e:  # noqa
                missing = [k for k in ("speed", "track", "lat", "lon", "altHAE", "epx", "epy", "epv", "epd") if k not in tpv]
                res.violation(f"C10:vam-report-raises-{type(e).__name__}[missing={','.join(missing) or 'none'}]", f"location_service_callback raised {e!r}", {**ctx, "report": tpv})
                continue
            new = btp.reqs[n0:]
            if len(new) > 1:
                res.violation("C10:more-than-one-vam-per-report", f"{len(new)}", ctx)
            sent = bool(new)
            if last_vam_t is None:
                res.count("vam.must_send_checked")
                if not sent:
                    res.violation("C10:no-vam-at-first-report-after-activation", "", ctx)
            else:
                gap_ms = round((t - last_vam_t) * 1000)
                res.count("vam.min_gap_checked")
                if sent and gap_ms < 100 and not stepped:
                    pv = reps[i - 1][1] if i else tpv
                    why = []
                    if "speed" in tpv and abs(tpv["speed"] - last_state["speed"]) > 0.5:
                        why.append("speed-change")
                    if "track" in tpv:
                        dh = abs(tpv["track"] - last_state["track"]) % 360
                        dh = 360 - dh if dh > 180 else dh
                        if dh > 4:
                            why.append("heading-change")
                    res.violation("C10:vam-closer-than-T_GenVamMin[dynamics-trigger-before-min-interval]", f"VAMs {gap_ms} ms apart on the reports' timestamps ({','.join(why) or 'dynamics vs last VAM content'})", ctx)
                if gap_ms >= 5000:
                    res.count("vam.must_send_checked")
                    if not sent:
                        res.violation(f"C10:no-vam-although-T_GenVamMax-elapsed[gap-mod-65536={gap_ms % 65536 < 100}]", f"{gap_ms} ms since the last VAM and a report arrived", ctx)
            if sent:
                ts, req = new[0]
                res.count("vam.messages")
                try:
                    d = coder.decode(req.data)
                except Exception as e:  # noqa
                    res.violation("C10:vam-payload-undecodable", f"{e!r}", ctx)
                    continue
                has_lf = "vruLowFrequencyContainer" in d["vam"]["vamParameters"]
                res.count("vam.lf_checked")
                if last_vam_t is None:
                    if not has_lf:
                        res.violation("C10:first-vam-without-low-frequency-container", "", ctx)
                else:
                    since = round((t - last_lf_t) * 1000)
                    if since >= 2001 and not has_lf:      # 1 ms slack: the implementation compares float seconds
                        res.violation("C10:vam-lf-container-missing-after-2s", f"{since} ms", ctx)
                rt = datetime.datetime.fromisoformat(tpv["time"].replace("Z", "+00:00")).timestamp()
                want_gd = int(round(rt * 1000) - ITS_EPOCH_MS + 5000) % 65536
                if min((d["vam"]["generationDeltaTime"] - want_gd) % 65536, (want_gd - d["vam"]["generationDeltaTime"]) % 65536) > 1:
                    res.violation("C10:vam-generationDeltaTime-not-the-report-time", f"{d['vam']['generationDeltaTime']} vs {want_gd}", ctx)
                if has_lf:
                    last_lf_t = t
                last_vam_t = t
                stepped = False
                last_state = {"speed": tpv.get("speed", 0.0), "track": tpv.get("track", 0.0)}
        res.case(repr(c))
    finally:
        real_time.time = saved_time
        clock.uninstall()


def gen_case(rng, which):
    wrap_t0 = 1072915200 - 5 + (rng.randrange(5000, 12000) * 65536 + 65536 - rng.choice((300, 1500, 4000))) / 1000.0
    kind = rng.choice(("constant", "accelerating", "turning", "turning-back", "stop-and-go", "jitter", "dropouts", "missing-keys"))
    dur = rng.choice((6, 12, 30)) if which == "cam" else rng.choice((8, 20, 70))
    c = {"which": which, "seed": rng.randrange(1 << 40), "t0": rng.choice((1709251200.0, wrap_t0)), "dur": dur, "rate": rng.choice((1, 2, 5, 10, 20, 50)), "kind": kind,
         "start": rng.choice((0.0, 0.33, 1.7)), "stop": None, "restart": None}
    if which == "cam" and rng.random() < 0.35:
        # fault injection: the lower layers refuse some CAMs (BTP/GN raise out of btp_data_request)
        c["faults"] = sorted(rng.sample(range(0, 60), rng.randrange(1, 6)))
    if which == "cam" and rng.random() < 0.4:
        c["stop"] = rng.uniform(2.0, dur - 1.0)
        if rng.random() < 0.6:
            c["restart"] = c["stop"] + rng.choice((0.05, 0.5, 1.3))
    if which == "cam" and rng.random() < 0.2:
        c["time_field"] = rng.choice(("coarse", "step-back"))
    if which == "vam" and rng.random() < 0.15:
        c["time_field"] = "step-back"
        if rng.random() < 0.6:
            c["kind"] = "constant-still"     # standing still: only the elapsed-time trigger can produce a VAM
    if which == "vam" and kind == "dropouts" and rng.random() < 0.3:
        c["rate"] = 1
    if which == "vam" and rng.random() < 0.12:
        c.update(kind="long-pause", dur=72, rate=rng.choice((5, 10, 20)))
    return c


def run_shard(spec, res):
    rng = random.Random(spec["seed"])
    for k in range(spec["cases"]):
        which = "cam" if k % 2 == 0 else "vam"
        c = gen_case(rng, which)
        (run_cam_case if which == "cam" else run_vam_case)(c, res)
        if k < 2:
            res.sample(c)


def shards(tier, seed):
    if tier == "thorough":
        return [{"seed": seed * 101 + i, "cases": 1500} for i in range(16)]
    return [{"seed": seed * 101 + i, "cases": 12} for i in range(12)]


def replay(case, res):
    c = case["case"]
    (run_cam_case if c["which"] == "cam" else run_vam_case)(c, res)
