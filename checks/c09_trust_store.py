"""C09 -- trust store closure and signer authorisation.

  S  histories of add-root / add-AA / add-AT / add-own / verify-chain calls and received messages mixing genuine
     certificates with forged, re-signed, permission-escalated, wrongly-issued and attacker-rooted ones; after EVERY
     operation the library dictionaries are walked and each stored certificate is re-verified by an independent chain
     checker (ecdsa on the OER image, own containment arithmetic) up to the operator-configured roots
  V  VerifyService.verify on messages signed by a genuine ticket for ITS-AIDs inside/outside its application permissions
     and generation times before/within/after its validity period
  I  the issuing API over issuer/subject PSID sets (all/explicit) x chain-length budgets: an issued certificate may
     verify under its issuer only if its permissions are contained and the issuer's remaining chain length allows it
"""
from __future__ import annotations

import copy
import random

PROPERTY = "C09"
LEVEL = "exploration"
RULE = ("S: operation histories over a pool of genuine and hostile certificates (distinct by hash of the op list); V: (psid, generation "
        "time class, signer form, validity window); I: (issuer permissions, issuer chain budget, subject kind, subject PSIDs); non-trivial = "
        "the independent checker evaluated at least one stored certificate / a verdict was compared.")
ASSUMPTIONS = ["asn1tools' OER codec and the ASN.1 module are trusted to produce the to-be-signed images; python-ecdsa is trusted",
               "only roots passed to add_root_certificate by the harness ('the operator') count as configured"]
REQUIRED_COUNTERS = ["S.ops", "S.store_certs_rechecked", "S.hostile_offers", "S.genuine_admitted", "S.messages_carrying_a_certificate", "V.messages", "V.accepted", "V.must_reject_checked", "V.directed_stale_window_sequences", "I.issued", "I.must_not_verify_checked", "I.must_not_verify_checked[multi-group-issuer]", "I.sub_ca_under_explicit_issuer_verified"]


def craft_signed(own, backend, psid, payload, gen_time_us, signer="certificate", extra=None, tamper=None):
    from flexstack.security.certificate import SECURITY_CODER
    hi = {"psid": psid, "generationTime": gen_time_us}
    if extra:
        hi.update(extra)
    tbs = {"payload": {"data": {"protocolVersion": 3, "content": ("unsecuredData", payload)}}, "headerInfo": hi}
    sig = own.sign_message(backend, SECURITY_CODER.encode_to_be_signed_data(tbs))
    sd = {"protocolVersion": 3, "content": ("signedData", {"hashId": "sha256", "tbsData": tbs,
                                                              "signer": ("certificate", [own.certificate]) if signer == "certificate" else ("digest", own.as_hashedid8()),
                                                              "signature": sig})}
    return SECURITY_CODER.encode_etsi_ts_103097_data_signed(sd)


def build_world(now, flavour=0):
    """Genuine PKI, attacker PKI and a pool of certificates to offer.  flavour 1: the root lists its issuing permissions
    explicitly and the AA also holds an application permission (623) that it may NOT issue."""
    from vf import pki
    from flexstack.security.certificate import Certificate, OwnCertificate
    if flavour == 1:
        G = pki.PKI(now, n_at=3, aa_psids=(36, 37, 638), at_psids=(36, 37, 638), name="good", root_groups=[((36, 37, 638), 2), ((623,), 2)], aa_app_psids=(623,), handmade_aa=True)
    else:
        G = pki.PKI(now, n_at=3, aa_psids=(36, 37, 638), at_psids=(36, 37, 638), name="good")
    esc = 623 if flavour == 1 else 99
    A = pki.PKI(now, n_at=2, aa_psids="all", at_psids=(36, 37, 638, 99), name="evil")
    pool = {}

    def C(d, issuer=None):
        return Certificate(certificate=copy.deepcopy(d), issuer=issuer)
    pool["g_aa"] = ("genuine", C(G.aa.certificate, G.root))
    for i, at in enumerate(G.ats):
        pool[f"g_at{i}"] = ("genuine", C(at.certificate, G.aa))
    pool["g_at0_noissuer"] = ("genuine", C(G.ats[0].certificate, None))
    pool["a_root"] = ("hostile", C(A.root.certificate, None))
    pool["a_aa"] = ("hostile", C(A.aa.certificate, A.root))
    pool["a_at"] = ("hostile", C(A.ats[0].certificate, A.aa))
    # attacker AT claiming the genuine AA as issuer, signed with the attacker's AA key
    d = copy.deepcopy(A.ats[1].certificate)
    d["issuer"] = ("sha256AndDigest", G.aa.as_hashedid8())
    pool["a_at_claims_g_aa"] = ("hostile", C(pki.resign(d, A.backend, A.aa.key_id), G.aa))
    pool["a_at_claims_g_aa_evil_issuer_obj"] = ("hostile", C(pki.resign(d, A.backend, A.aa.key_id), A.aa))
    # genuine AT with escalated permissions (signature no longer matches)
    d = copy.deepcopy(G.ats[1].certificate)
    d["toBeSigned"]["appPermissions"].append({"psid": esc})
    pool["g_at_tampered_perms"] = ("hostile", C(d, G.aa))
    # AT for a PSID the AA may not issue, signed with the real AA key (mis-issuance the verifier must still refuse)
    at99 = OwnCertificate.initialize_certificate(G.backend, pki.at_tbs(now, (36, esc)), None)   # self-signed shell to get a key
    d = copy.deepcopy(at99.certificate)
    d["issuer"] = ("sha256AndDigest", G.aa.as_hashedid8())
    pool["g_at_escalated_signed_by_aa"] = ("hostile", C(pki.resign(d, G.backend, G.aa.key_id), G.aa))
    # AA under the genuine root signed by the attacker
    d = copy.deepcopy(A.aa.certificate)
    d["issuer"] = ("sha256AndDigest", G.root.as_hashedid8())
    pool["a_aa_claims_g_root"] = ("hostile", C(pki.resign(d, A.backend, A.root.key_id), G.root))
    # genuine AT with one signature bit flipped
    d = copy.deepcopy(G.ats[2].certificate)
    s = bytearray(d["signature"][1]["sSig"])
    s[5] ^= 1
    d["signature"] = (d["signature"][0], {"rSig": d["signature"][1]["rSig"], "sSig": bytes(s)})
    pool["g_at_sigflip"] = ("hostile", C(d, G.aa))
    # self-signed AT-like certificate
    pool["self_signed_at"] = ("hostile", C(at99.certificate, None))
    return G, A, pool


def gen_s(rng, names):
    ops = []
    ops.append({"op": "add_root", "which": "g"})
    for _ in range(rng.randrange(3, 25)):
        r = rng.random()
        n = rng.choice(names)
        if r < 0.25:
            ops.append({"op": "add_at", "cert": n})
        elif r < 0.45:
            ops.append({"op": "add_aa", "cert": n})
        elif r < 0.5:
            ops.append({"op": "add_own", "cert": n})
        elif r < 0.75:
            k = rng.randrange(1, 4)
            ops.append({"op": "verify_seq", "certs": [rng.choice(names) for _ in range(k)]})
        else:
            ops.append({"op": "message", "signer": rng.choice(("g0", "g1", "a0", "a_claim", "a_aa")), "form": rng.choice(("certificate", "digest")), "psid": rng.choice((36, 37, 638)),
                        # certificates / certificate requests carried in the SIGNED header (peer-to-peer certificate distribution)
                        "carries": rng.choice((None, None, "a_root", "a_aa", "a_at", "a_aa_claims_g_root", "g_aa", "self_signed_at", "p2pcd_request"))})
    return {"part": "S", "ops": ops, "with_aa": rng.random() < 0.5, "with_sign_service": rng.random() < 0.6}


def run_s_case(c, W, res):
    from vf import pki
    from flexstack.security.certificate_library import CertificateLibrary
    from flexstack.security.ecdsa_backend import PythonECDSABackend
    from flexstack.security.verify_service import VerifyService
    from flexstack.security.sn_sap import SNVERIFYRequest
    G, A, pool = W
    backend = PythonECDSABackend()
    lib = CertificateLibrary(backend, [], [G.aa] if False else [], [])
    sign = None
    if c.get("with_sign_service"):
        from flexstack.security.sign_service import SignService
        sign = SignService(backend, lib)
    vs = VerifyService(backend, lib, sign)
    configured_roots = {}
    now_us = int((G.now - pki.ITS_EPOCH + 5) * 1e6)
    for i, op in enumerate(c["ops"]):
        ctx = {"part": "S", "with_aa": c["with_aa"], "with_sign_service": c.get("with_sign_service", False), "flavour": c.get("flavour", 0), "ops": c["ops"][:i + 1]}
        res.count("S.ops")
        try:
            if op["op"] == "add_root":
                lib.add_root_certificate(G.root)
                configured_roots[pki.hashedid8(G.root.certificate)] = G.root.certificate
                if c["with_aa"]:
                    lib.add_authorization_authority(G.aa)
            elif op["op"] in ("add_at", "add_aa", "add_own"):
                kind, cert = pool[op["cert"]]
                res.count("S.hostile_offers" if kind == "hostile" else "S.genuine_offers")
                if op["op"] == "add_at":
                    lib.add_authorization_ticket(cert)
                elif op["op"] == "add_aa":
                    lib.add_authorization_authority(cert)
                else:
                    lib.add_own_certificate(cert)
            elif op["op"] == "verify_seq":
                dicts = [pool[n][1].certificate for n in op["certs"]]
                if any(pool[n][0] == "hostile" for n in op["certs"]):
                    res.count("S.hostile_offers")
                lib.verify_sequence_of_certificates(dicts, backend)
            elif op["op"] == "message":
                if op["signer"] in ("g0", "g1"):
                    own, be = G.ats[int(op["signer"][1])], G.backend
                elif op["signer"] == "a0":
                    own, be = A.ats[0], A.backend
                    res.count("S.hostile_offers")
                elif op["signer"] == "a_aa":
                    own, be = A.aa, A.backend          # the attacker's AA signs itself: its issuer (the attacker's root) becomes 'unknown, wanted'
                    res.count("S.hostile_offers")
                else:
                    from flexstack.security.certificate import OwnCertificate
                    kind, cert = pool["a_at_claims_g_aa"]
                    own, be = OwnCertificate(certificate=cert.certificate, issuer=G.aa, key_id=A.ats[1].key_id), A.backend
                    res.count("S.hostile_offers")
                extra = {"generationLocation": {"latitude": 1, "longitude": 2, "elevation": 0xF000}} if op["psid"] == 37 else {}
                if op.get("carries") == "p2pcd_request":
                    extra["inlineP2pcdRequest"] = [pool["a_aa"][1].as_hashedid8()[-3:], pool["a_root"][1].as_hashedid8()[-3:], pool["g_aa"][1].as_hashedid8()[-3:]]
                elif op.get("carries"):
                    extra["requestedCertificate"] = copy.deepcopy(pool[op["carries"]][1].certificate)
                    res.count("S.messages_carrying_a_certificate")
                    if pool[op["carries"]][0] == "hostile":
                        res.count("S.hostile_offers")
                msg = craft_signed(own, be, op["psid"], b"data", now_us, op["form"], extra=extra or None)
                conf = vs.verify(SNVERIFYRequest(sec_header=b"", sec_header_length=0, message=msg, message_length=len(msg)))
                if op["signer"] in ("a0", "a_claim", "a_aa") and conf.report.value == 0:
                    res.violation(f"C09:message-of-hostile-signer-accepted[{op['signer']}]", f"{op}", ctx)
        except Exception as e:  # noqa
            res.count("S.op_exceptions")
            res.observe_set("S.exception_types", f"{op['op']}:{type(e).__name__}")
        # ---- walk the store
        if set(lib.known_root_certificates) != set(configured_roots):
            res.violation("C09:root-store-changed-by-non-operator-operation", f"roots {sorted(k.hex() for k in lib.known_root_certificates)}", ctx)
        aas = {h: cobj.certificate for h, cobj in lib.known_authorization_authorities.items()}
        for name, d in (("known_authorization_authorities", lib.known_authorization_authorities), ("known_authorization_tickets", lib.known_authorization_tickets),
                        ("own_certificates", lib.own_certificates)):
            for h, cobj in d.items():
                res.count("S.store_certs_rechecked")
                if pki.hashedid8(cobj.certificate) != h:
                    res.violation(f"C09:store-key-not-the-certificate-digest[{name}]", f"{h.hex()}", ctx)
                ok, why = pki.chain_ok(cobj.certificate, aas, configured_roots)
                if not ok:
                    label = next((n for n, (k, cc) in pool.items() if cc.certificate == cobj.certificate), "?")
                    res.violation(f"C09:untrusted-certificate-in-{name}[{label}]", f"stored certificate does not verify up to a configured root: {why} (after {op})", ctx)
        for h in lib.known_authorization_tickets:
            if any(h == pki.hashedid8(pool[n][1].certificate) for n in pool if pool[n][0] == "genuine"):
                res.count("S.genuine_admitted")


# ------------------------------------------------------------------------------------------ V
def run_v(spec, res):
    from vf import pki
    from vf.vclock import VClock
    from flexstack.security.sn_sap import SNVERIFYRequest
    rng = random.Random(spec["seed"])
    clock = VClock().install()
    try:
        G = pki.PKI(clock.now(), n_at=1, aa_psids=(36, 37, 638, 99, 140), at_psids=(36, 37, 638), name="v")
        windows = [("years", 10), ("seconds", 30), ("minutes", 2), ("hours", 1), ("sixtyHours", 1), ("sixtyHours", 3), ("hours", 700)]   # every whole-second Duration unit (round 7, C09-agent7)
        block = []
        rx = None
        for k in range(spec["cases"]):
            # one receiver (one VerifyService / certificate library) judges a STREAM of messages signed by several tickets with
            # different permissions and validity windows: a verdict must depend on the message and its ticket only
            if k % 12 == 0:
                block = []
                for _ in range(4):
                    unit, n = rng.choice(windows)
                    start_off = rng.choice((-1000, -10, 0, 5, 60))
                    at_psids = rng.choice(((36, 37, 638), (36,), (99, 140), (37, 638)))
                    block.append((G.new_at(at_psids, start=pki.t32(clock.now()) + start_off, dur=(unit, n)), at_psids, unit, n, start_off))
                rx = G.station(G.ats[0], known_ats=[pki.strip(b[0]) for b in block])
            at, at_psids, unit, n, start_off = rng.choice(block)
            lo, hi = pki.validity_window_us(at.certificate)
            tclass = rng.choice(("within", "within", "before", "after", "edge_lo", "edge_hi", "way_after"))
            gt = {"within": (lo + hi) // 2, "before": lo - rng.choice((1, 10 ** 6, 10 ** 9)), "after": hi + rng.choice((1, 10 ** 6, 10 ** 9)),
                  "edge_lo": lo, "edge_hi": hi, "way_after": hi + 10 ** 13}[tclass]
            psid = rng.choice((36, 37, 638, 99, 140, 36, 37))
            # directed opening of every stream: a valid message of the ticket with the widest window, then a message of
            # another ticket for an ITS-AID it does not hold (rejected), then a message of that ticket with a permitted
            # ITS-AID whose generation time is outside ITS window but inside the first ticket's
            if k % 12 in (0, 1, 2):
                wide = max(block, key=lambda b: pki.validity_window_us(b[0].certificate)[1] - pki.validity_window_us(b[0].certificate)[0])
                narrow = min(block, key=lambda b: pki.validity_window_us(b[0].certificate)[1] - pki.validity_window_us(b[0].certificate)[0])
                wlo, whi = pki.validity_window_us(wide[0].certificate)
                nlo, nhi = pki.validity_window_us(narrow[0].certificate)
                if wide is not narrow and (nhi + 10 ** 6 < whi or nlo - 10 ** 6 > wlo):
                    res.count("V.directed_stale_window_sequences")
                    if k % 12 == 0:
                        at, at_psids, unit, n, start_off = wide
                        lo, hi = wlo, whi
                        psid, tclass, gt = wide[1][0], "within", (max(wlo, nlo) + min(whi, nhi)) // 2 if max(wlo, nlo) < min(whi, nhi) else (wlo + whi) // 2
                    else:
                        at, at_psids, unit, n, start_off = narrow
                        lo, hi = nlo, nhi
                        if k % 12 == 1:
                            psid = next(p_ for p_ in (36, 37, 638, 99, 140) if p_ not in narrow[1])
                            tclass, gt = "within", (nlo + nhi) // 2
                        else:
                            psid = narrow[1][0]
                            tclass, gt = ("after", nhi + 10 ** 6) if nhi + 10 ** 6 < whi else ("before", nlo - 10 ** 6)
            form = rng.choice(("certificate", "digest")) if psid != 37 else "certificate"
            extra = {"generationLocation": {"latitude": 1, "longitude": 2, "elevation": 0xF000}} if psid == 37 else None
            msg = craft_signed(at, G.backend, psid, b"payload-%d" % k, gt, form, extra)
            conf = rx["verify"].verify(SNVERIFYRequest(sec_header=b"", sec_header_length=0, message=msg, message_length=len(msg)))
            res.count("V.messages")
            case = {"part": "V", "psid": psid, "at_psids": list(at_psids), "time_class": tclass, "form": form, "window": [unit, n], "start_off": start_off, "position_in_stream": k % 12}
            ok = conf.report.value == 0
            in_perm = psid in at_psids
            in_time = lo <= gt <= hi
            if ok:
                res.count("V.accepted")
            if not in_perm:
                res.count("V.must_reject_checked")
                if ok:
                    res.violation("C09:message-accepted-with-its-aid-outside-ticket-permissions", f"psid {psid} not in {at_psids}: SUCCESS", case)
            if in_perm and not in_time and tclass not in ("edge_lo", "edge_hi"):
                res.count("V.must_reject_checked")
                if ok:
                    res.violation(f"C09:message-accepted-with-generation-time-{'before' if gt < lo else 'after'}-ticket-validity", f"generationTime {gt} outside [{lo},{hi}]: SUCCESS", case)
            res.case(repr(case))
            if k == 0:
                res.sample(case)
    finally:
        clock.uninstall()


# ------------------------------------------------------------------------------------------ I
def run_i(spec, res):
    from vf import pki
    from vf.vclock import VClock
    from flexstack.security.certificate import OwnCertificate
    from flexstack.security.ecdsa_backend import PythonECDSABackend
    rng = random.Random(spec["seed"])
    clock = VClock().install()
    now = clock.now()
    try:
        for k in range(spec["cases"]):
            be = PythonECDSABackend()
            root_perm = rng.choice(("all", "all", (36, 37, 638), (36,)))
            budget = rng.choice((0, 1, 2, 3))
            groups = None
            if rng.random() < 0.35:
                # an issuer whose PSID groups have different remaining chain lengths (some exhausted)
                pss = rng.choice((((36,), (37,)), ((36, 638), (37,)), ((36,), (37, 638), (99,)), ((36, 37), (638,))))
                groups = [(ps, rng.choice((0, 0, 1, 2, 3))) for ps in pss]
                res.count("I.multi_group_issuers")
            root = OwnCertificate.initialize_certificate(be, pki.root_tbs(now, "r", budget, root_perm, groups=groups), None)
            chain = [root]
            depth = rng.randrange(0, 3)
            case = {"part": "I", "root_perm": root_perm if root_perm == "all" else list(root_perm), "budget": budget, "levels": [],
                    "root_groups": [[list(ps), ch] for ps, ch in groups] if groups else None}
            issuer = root
            dead = False
            for lvl in range(depth):
                p = rng.choice(("all", (36, 37, 638), (36, 99), (36,), (638, 37)))
                case["levels"].append({"ca_perm": p if p == "all" else list(p)})
                try:
                    # a CA certificate that also holds an application permission (of a PSID it may issue): under an issuer with
                    # explicit permissions the issuing API only gets past its permission check with such a certificate
                    app = (p[0],) if p != "all" and rng.random() < 0.6 else None
                    if app:
                        res.count("I.sub_ca_with_application_permission")
                    sub = OwnCertificate.initialize_certificate(be, pki.aa_tbs(now, p, f"ca{lvl}", chain=rng.choice((1, 2, 3)), app_psids=app), issuer)
                except Exception as e:  # noqa
                    case["levels"][-1]["raised"] = type(e).__name__
                    dead = True
                    break
                res.count("I.issued")
                try:
                    verifies = sub.verify(be)
                except Exception as e:  # noqa  an exception is "does not verify"
                    verifies = False
                    res.observe_set("I.verify_exception_types", type(e).__name__)
                need = pki.needed_psids(sub.certificate)
                allowed = pki.issuer_allows(issuer.certificate, need)
                # remaining chain length of the issuer for the PSIDs the subject asks for (per PSID group of the issuer)
                # remaining chain length for the permissions the ISSUED certificate carries (the API may grant less than was
                # asked: exhausted or uncovered groups are dropped); a certificate left without any permission is judged on
                # what was asked for and the issuer covers
                ib = pki.issuing_budget(issuer.certificate, need)
                if not need:
                    req = [q_ for q_ in pki.needed_psids({"toBeSigned": pki.aa_tbs(now, p, app_psids=app)}) if pki.issuing_budget(issuer.certificate, [q_]) >= 0]
                    ib = pki.issuing_budget(issuer.certificate, req) if req else max((g_["minChainLength"] for g_ in issuer.certificate["toBeSigned"].get("certIssuePermissions", [])), default=0)
                case["levels"][-1].update(verifies=verifies, allowed=allowed, issuer_budget=ib)
                multi = len(issuer.certificate["toBeSigned"].get("certIssuePermissions", [])) > 1
                if not allowed or ib < 1:
                    res.count("I.must_not_verify_checked")
                    if multi:
                        res.count("I.must_not_verify_checked[multi-group-issuer]")
                    if verifies:
                        res.violation(f"C09:issued-ca-certificate-verifies-although-{'permissions-not-contained' if not allowed else 'chain-length-exhausted'}"
                                      f"{'[issuer-with-several-psid-groups]' if multi else ''}", f"{case}", case)
                if verifies and not any(g_["subjectPermissions"][0] == "all" for g_ in issuer.certificate["toBeSigned"].get("certIssuePermissions", [])):
                    res.count("I.sub_ca_under_explicit_issuer_verified")
                if verifies:
                    for q in sub.certificate["toBeSigned"].get("certIssuePermissions", []):
                        qp = ["all"] if q["subjectPermissions"][0] == "all" else [e["psid"] for e in q["subjectPermissions"][1]]
                        qb = pki.issuing_budget(issuer.certificate, qp)
                        if q["minChainLength"] >= max(qb, 1):
                            res.violation("C09:issued-ca-keeps-or-extends-chain-length-budget", f"issuer budget {qb} for {qp}, subject {q['minChainLength']}", case)
                    issuer = sub
                    chain.append(sub)
                else:
                    dead = True
                    break
            if dead:
                res.case(repr(case))
                continue
            ap = rng.choice(((36,), (36, 37, 638), (99,), (36, 99), (638,)))
            case["at_psids"] = list(ap)
            try:
                at = OwnCertificate.initialize_certificate(be, pki.at_tbs(now, ap), issuer)
            except Exception as e:  # noqa
                case["at_raised"] = type(e).__name__
                res.case(repr(case))
                continue
            res.count("I.issued")
            try:
                verifies = at.verify(be)
            except Exception as e:  # noqa
                verifies = False
                res.observe_set("I.verify_exception_types", type(e).__name__)
            allowed = pki.issuer_allows(issuer.certificate, list(ap))
            ib = pki.issuing_budget(issuer.certificate, list(ap))
            multi = len(issuer.certificate["toBeSigned"].get("certIssuePermissions", [])) > 1
            if not allowed or ib < 1:
                res.count("I.must_not_verify_checked")
                if multi:
                    res.count("I.must_not_verify_checked[multi-group-issuer]")
                if verifies:
                    res.violation(f"C09:issued-ticket-verifies-although-{'permissions-not-contained' if not allowed else 'chain-length-exhausted'}"
                                  f"{'[issuer-with-several-psid-groups]' if multi else ''}", f"issuer budget {ib}, allowed {allowed}", case)
            elif verifies:
                res.count("I.legit_tickets_verify")
                # and the independent checker agrees with a positive verdict
                store = {pki.hashedid8(cc.certificate): cc.certificate for cc in chain[1:]}
                ok, why = pki.chain_ok(at.certificate, store, {pki.hashedid8(root.certificate): root.certificate})
                if not ok:
                    res.violation("C09:issued-ticket-verifies-but-independent-checker-rejects", why, case)
            res.case(repr(case))
            if k == 0:
                res.sample(case)
    finally:
        clock.uninstall()


def run_s(spec, res):
    from vf.vclock import VClock
    rng = random.Random(spec["seed"])
    clock = VClock().install()
    try:
        Ws = [build_world(clock.now(), 0), build_world(clock.now(), 1)]
        names = sorted(Ws[0][2])
        for k in range(spec["cases"]):
            c = gen_s(rng, names)
            c["flavour"] = k % 2
            res.count(f"S.pki_flavour[{c['flavour']}]")
            run_s_case(c, Ws[c["flavour"]], res)
            res.case(repr(c))
            if k == 0:
                res.sample(c)
    finally:
        clock.uninstall()


def shards(tier, seed):
    if tier == "thorough":
        return ([{"part": "S", "seed": seed * 71 + i, "cases": 2500} for i in range(10)] + [{"part": "V", "seed": seed * 73 + i, "cases": 4000} for i in range(3)] +
                [{"part": "I", "seed": seed * 79 + i, "cases": 3000} for i in range(3)])
    return ([{"part": "S", "seed": seed * 71 + i, "cases": 80} for i in range(5)] + [{"part": "V", "seed": seed * 73 + i, "cases": 250} for i in range(2)] +
            [{"part": "I", "seed": seed * 79, "cases": 250}])


def run_shard(spec, res):
    {"S": run_s, "V": run_v, "I": run_i}[spec["part"]](spec, res)


def replay(case, res):
    from vf.vclock import VClock
    if case.get("part") == "S":
        clock = VClock().install()
        try:
            run_s_case(case, build_world(clock.now(), case.get("flavour", 0)), res)
        finally:
            clock.uninstall()
    elif case.get("part") == "V":
        run_v({"seed": 0, "cases": 300}, res)
    else:
        run_i({"seed": 0, "cases": 300}, res)
