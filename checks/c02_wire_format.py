"""C02 -- emitted packets and header codecs conform to the ETSI wire formats.

Differential runtime monitor against the independent codec vf/ref/wire.py:
  F  field sweeps: repo-encode(fields) == ref-encode(fields) and repo-decode(ref-encode(fields)) == fields
     (per-field exhaustive for fields <= 16 bit, boundary-biased sampling for wider ones)
  P  whole packets captured on the simulated ether from a real router/BTP router (origination of beacon, SHB,
     GBC/GAC x shapes, GUC, LS request, LS reply; forwarding of TSB, GBC, GUC, LS request, LS reply) compared
     octet for octet with the packet the reference encoder builds from request + MIB + ego position vector.
"""
from __future__ import annotations

import random

from vf.ref import wire as W
from vf.ref import lifetime as RL

PROPERTY = "C02"
LEVEL = "exploration"
RULE = ("F: (structure, swept field, value) triples, other fields drawn boundary-biased; distinct by the full field "
        "assignment; non-trivial = both directions compared with the reference codec. P: packets emitted by a real "
        "router; distinct by (kind, shape, BTP type, ports, TC, mobility, SN, hop/lifetime request, PV and area values).")
ASSUMPTIONS = ["vf/ref/wire.py transcribes EN 302 636-4-1 V1.4.1 clause 9 and EN 302 636-5-1 clause 7 (self-checked)",
               "decoders are compared only on images a conformant encoder can produce (reserved = 0, enumerations in range)",
               "secured envelopes are out of scope here (C05 decodes them)"]
REQUIRED_COUNTERS = ["F.encode_compared", "F.decode_compared", "P.packets_compared", "P.unnamed_station_type_frame_refused"]

I32 = (-(1 << 31), -(1 << 31) + 1, -900000000, -1, 0, 1, 900000000, 1800000000, (1 << 31) - 1)
U32 = (0, 1, (1 << 31) - 1, 1 << 31, (1 << 31) + 1, (1 << 32) - 2, (1 << 32) - 1)


def r_i32(rng):
    return rng.choice(I32) if rng.random() < 0.4 else rng.randrange(-(1 << 31), 1 << 31)


def r_u32(rng):
    return rng.choice(U32) if rng.random() < 0.3 else rng.randrange(1 << 32)


def r_u16(rng):
    return rng.choice((0, 1, 255, 256, 32767, 32768, 65534, 65535)) if rng.random() < 0.3 else rng.randrange(65536)


def r_s15(rng):
    return rng.choice((-16384, -16383, -1, 0, 1, 16382, 16383)) if rng.random() < 0.4 else rng.randrange(-16384, 16384)


def r_mid(rng):
    return rng.choice((b"\0" * 6, b"\xff" * 6, b"\x80\0\0\0\0\x01")) if rng.random() < 0.2 else bytes(rng.randrange(256) for _ in range(6))


NAMED_ST = tuple(range(12)) + (15,)      # EN 302 636-4-1 clause 6.3: 0..11 and 15 (road side unit); 12..14, 16..31 carry no name
UNNAMED_ST = (12, 13, 14) + tuple(range(16, 32))


def r_addr(rng):
    return {"m": rng.randrange(2), "st": rng.choice(NAMED_ST), "mid": r_mid(rng)}


def r_lpv(rng):
    return {"addr": r_addr(rng), "tst": r_u32(rng), "lat": r_i32(rng), "lon": r_i32(rng), "pai": rng.randrange(2),
            "s": r_s15(rng), "h": r_u16(rng)}


def r_spv(rng):
    return {"addr": r_addr(rng), "tst": r_u32(rng), "lat": r_i32(rng), "lon": r_i32(rng)}


HST_FOR = {0: (0,), 1: (0,), 2: (0,), 3: (0, 1, 2), 4: (0, 1, 2), 5: (0, 1), 6: (0, 1)}


# ------------------------------------------------------------------ structure table
def S():
    """Structure table built lazily (repo imports happen in the worker)."""
    from flexstack.geonet.gn_address import GNAddress, M, ST, MID
    from flexstack.geonet.position_vector import LongPositionVector, ShortPositionVector, TST
    from flexstack.geonet.basic_header import BasicHeader, BasicNH, LT, LTbase
    from flexstack.geonet.common_header import CommonHeader
    from flexstack.geonet.service_access_point import (CommonNH, HeaderType, HeaderSubType, GeoBroadcastHST,
                                                       GeoAnycastHST, TopoBroadcastHST, LocationServiceHST, TrafficClass)
    from flexstack.geonet.gbc_extended_header import GBCExtendedHeader
    from flexstack.geonet.tsb_extended_header import TSBExtendedHeader
    from flexstack.geonet.guc_extended_header import GUCExtendedHeader
    from flexstack.geonet.ls_extended_header import LSRequestExtendedHeader, LSReplyExtendedHeader
    from flexstack.btp.btp_header import BTPAHeader, BTPBHeader

    def mk_addr(a):
        return GNAddress(m=M(a["m"]), st=ST.ROAD_SIDE_UNIT if a["st"] == 15 else ST(a["st"]), mid=MID(a["mid"]))

    def un_addr(a):
        return {"m": a.m.value, "st": a.st.value, "mid": a.mid.mid}

    def mk_lpv(p):
        return LongPositionVector(gn_addr=mk_addr(p["addr"]), tst=TST(msec=p["tst"]), latitude=p["lat"],
                                  longitude=p["lon"], pai=bool(p["pai"]), s=p["s"], h=p["h"])

    def un_lpv(p):
        return {"addr": un_addr(p.gn_addr), "tst": p.tst.msec, "lat": p.latitude, "lon": p.longitude,
                "pai": int(p.pai), "s": p.s, "h": p.h}

    def mk_spv(p):
        return ShortPositionVector(gn_addr=mk_addr(p["addr"]), tst=TST(msec=p["tst"]), latitude=p["lat"], longitude=p["lon"])

    def un_spv(p):
        return {"addr": un_addr(p.gn_addr), "tst": p.tst.msec, "lat": p.latitude, "lon": p.longitude}

    def hst_enum(ht, hst):
        return {3: GeoAnycastHST, 4: GeoBroadcastHST, 5: TopoBroadcastHST, 6: LocationServiceHST}.get(ht, HeaderSubType)(hst)

    T = {}
    T["gnaddr"] = dict(
        rand=r_addr, sweep={"m": range(2), "st": NAMED_ST},
        mk=mk_addr, enc=lambda o: o.encode(), dec=lambda b: GNAddress.decode(b), un=un_addr,
        ref_enc=W.enc_gn_addr, norm=lambda f: f)
    T["lpv"] = dict(
        rand=r_lpv, sweep={"s": range(-16384, 16384), "h": range(65536), "pai": range(2)},
        wide={"lat": r_i32, "lon": r_i32, "tst": r_u32},
        mk=mk_lpv, enc=lambda o: o.encode(), dec=lambda b: LongPositionVector.decode(b), un=un_lpv, ref_enc=W.enc_lpv)
    T["spv"] = dict(
        rand=r_spv, sweep={}, wide={"lat": r_i32, "lon": r_i32, "tst": r_u32},
        mk=mk_spv, enc=lambda o: o.encode(), dec=lambda b: ShortPositionVector.decode(b), un=un_spv, ref_enc=W.enc_spv)
    T["basic"] = dict(
        rand=lambda rng: {"version": rng.randrange(16), "nh": rng.randrange(3), "lt_mult": rng.randrange(64),
                          "lt_base": rng.randrange(4), "rhl": rng.randrange(256)},
        sweep={"version": range(16), "nh": range(3), "lt_mult": range(64), "lt_base": range(4), "rhl": range(256)},
        mk=lambda f: BasicHeader(version=f["version"], nh=BasicNH(f["nh"]), reserved=0,
                                 lt=LT(multiplier=f["lt_mult"], base=LTbase(f["lt_base"])), rhl=f["rhl"]),
        enc=lambda o: o.encode_to_bytes(), dec=lambda b: BasicHeader.decode_from_bytes(b),
        un=lambda o: {"version": o.version, "nh": o.nh.value, "lt_mult": o.lt.multiplier, "lt_base": o.lt.base.value,
                      "rhl": o.rhl, "reserved": o.reserved},
        ref_enc=W.enc_basic, extra={"reserved": 0})

    def r_common(rng):
        ht = rng.randrange(7)
        return {"nh": rng.randrange(4), "ht": ht, "hst": rng.choice(HST_FOR[ht]),
                "tc": {"scf": rng.randrange(2), "co": rng.randrange(2), "id": rng.randrange(64)},
                "mobile": rng.randrange(2), "pl": r_u16(rng), "mhl": rng.randrange(256)}

    T["common"] = dict(
        rand=r_common,
        sweep={"nh": range(4), "hthst": [(h, s) for h in range(7) for s in HST_FOR[h]], "tc": range(256),
               "mobile": range(2), "pl": range(65536), "mhl": range(256)},
        mk=lambda f: CommonHeader(nh=CommonNH(f["nh"]), reserved=0, ht=HeaderType(f["ht"]), hst=hst_enum(f["ht"], f["hst"]),
                                  tc=TrafficClass(scf=bool(f["tc"]["scf"]), channel_offload=bool(f["tc"]["co"]), tc_id=f["tc"]["id"]),
                                  flags=f["mobile"] << 7, pl=f["pl"], mhl=f["mhl"]),
        enc=lambda o: o.encode_to_bytes(), dec=lambda b: CommonHeader.decode_from_bytes(b),
        un=lambda o: {"nh": o.nh.value, "ht": o.ht.value, "hst": o.hst.value,
                      "tc": {"scf": int(o.tc.scf), "co": int(o.tc.channel_offload), "id": o.tc.tc_id},
                      "mobile": 1 if o.flags == 0x80 else (0 if o.flags == 0 else ("flags", o.flags)), "pl": o.pl,
                      "mhl": o.mhl, "reserved": o.reserved},
        ref_enc=W.enc_common, extra={"reserved": 0})

    def r_area(rng):
        return {"lat": r_i32(rng), "lon": r_i32(rng), "a": r_u16(rng), "b": r_u16(rng), "angle": r_u16(rng)}

    T["gbc"] = dict(
        rand=lambda rng: {"sn": r_u16(rng), "so_pv": r_lpv(rng), "area": r_area(rng)},
        sweep={"sn": range(65536), "area.a": range(65536), "area.b": range(65536), "area.angle": range(65536)},
        wide={"area.lat": r_i32, "area.lon": r_i32},
        mk=lambda f: GBCExtendedHeader(sn=f["sn"], so_pv=mk_lpv(f["so_pv"]), latitude=f["area"]["lat"],
                                       longitude=f["area"]["lon"], a=f["area"]["a"], b=f["area"]["b"], angle=f["area"]["angle"]),
        enc=lambda o: o.encode(), dec=lambda b: GBCExtendedHeader.decode(b),
        un=lambda o: {"sn": o.sn, "so_pv": un_lpv(o.so_pv), "area": {"lat": o.latitude, "lon": o.longitude, "a": o.a,
                                                                      "b": o.b, "angle": o.angle},
                      "reserved": o.reserved, "reserved2": o.reserved2},
        ref_enc=lambda f: W.enc_ext(W.HT_GBC, 0, f), extra={"reserved": 0, "reserved2": 0})
    T["tsb"] = dict(
        rand=lambda rng: {"sn": r_u16(rng), "so_pv": r_lpv(rng)}, sweep={"sn": range(65536)},
        mk=lambda f: TSBExtendedHeader(sn=f["sn"], so_pv=mk_lpv(f["so_pv"])),
        enc=lambda o: o.encode(), dec=lambda b: TSBExtendedHeader.decode(b),
        un=lambda o: {"sn": o.sn, "so_pv": un_lpv(o.so_pv), "reserved": o.reserved},
        ref_enc=lambda f: W.enc_ext(W.HT_TSB, 1, f), extra={"reserved": 0})
    T["guc"] = dict(
        rand=lambda rng: {"sn": r_u16(rng), "so_pv": r_lpv(rng), "de_pv": r_spv(rng)}, sweep={"sn": range(65536)},
        mk=lambda f: GUCExtendedHeader(sn=f["sn"], so_pv=mk_lpv(f["so_pv"]), de_pv=mk_spv(f["de_pv"])),
        enc=lambda o: o.encode(), dec=lambda b: GUCExtendedHeader.decode(b),
        un=lambda o: {"sn": o.sn, "so_pv": un_lpv(o.so_pv), "de_pv": un_spv(o.de_pv), "reserved": o.reserved},
        ref_enc=lambda f: W.enc_ext(W.HT_GUC, 0, f), extra={"reserved": 0})
    T["lsreq"] = dict(
        rand=lambda rng: {"sn": r_u16(rng), "so_pv": r_lpv(rng), "req_addr": r_addr(rng)}, sweep={"sn": range(65536)},
        mk=lambda f: LSRequestExtendedHeader(sn=f["sn"], so_pv=mk_lpv(f["so_pv"]), request_gn_addr=mk_addr(f["req_addr"])),
        enc=lambda o: o.encode(), dec=lambda b: LSRequestExtendedHeader.decode(b),
        un=lambda o: {"sn": o.sn, "so_pv": un_lpv(o.so_pv), "req_addr": un_addr(o.request_gn_addr), "reserved": o.reserved},
        ref_enc=lambda f: W.enc_ext(W.HT_LS, 0, f), extra={"reserved": 0})
    T["lsrep"] = dict(
        rand=lambda rng: {"sn": r_u16(rng), "so_pv": r_lpv(rng), "de_pv": r_spv(rng)}, sweep={"sn": range(65536)},
        mk=lambda f: LSReplyExtendedHeader(sn=f["sn"], so_pv=mk_lpv(f["so_pv"]), de_pv=mk_spv(f["de_pv"])),
        enc=lambda o: o.encode(), dec=lambda b: LSReplyExtendedHeader.decode(b),
        un=lambda o: {"sn": o.sn, "so_pv": un_lpv(o.so_pv), "de_pv": un_spv(o.de_pv), "reserved": o.reserved},
        ref_enc=lambda f: W.enc_ext(W.HT_LS, 1, f), extra={"reserved": 0})
    T["btpa"] = dict(
        rand=lambda rng: {"dport": r_u16(rng), "sport": r_u16(rng)}, sweep={"dport": range(65536), "sport": range(65536)},
        mk=lambda f: BTPAHeader(destination_port=f["dport"], source_port=f["sport"]),
        enc=lambda o: o.encode(), dec=lambda b: BTPAHeader.decode(b),
        un=lambda o: {"dport": o.destination_port, "sport": o.source_port},
        ref_enc=lambda f: W.enc_btp_a(f["dport"], f["sport"]))
    T["btpb"] = dict(
        rand=lambda rng: {"dport": r_u16(rng), "info": r_u16(rng)}, sweep={"dport": range(65536), "info": range(65536)},
        mk=lambda f: BTPBHeader(destination_port=f["dport"], destination_port_info=f["info"]),
        enc=lambda o: o.encode(), dec=lambda b: BTPBHeader.decode(b),
        un=lambda o: {"dport": o.destination_port, "info": o.destination_port_info},
        ref_enc=lambda f: W.enc_btp_b(f["dport"], f["info"]))
    return T


def set_path(f, path, v):
    if path == "hthst":
        f["ht"], f["hst"] = v
        return
    if path == "tc":
        f["tc"] = W.dec_tc(v)
        return
    ks = path.split(".")
    for k in ks[:-1]:
        f = f[k]
    f[ks[-1]] = v


def flat(d, pre=""):
    out = {}
    for k, v in d.items():
        if isinstance(v, dict):
            out.update(flat(v, pre + k + "."))
        else:
            out[pre + k] = v
    return out


def diff_fields(a, b):
    fa, fb = flat(a), flat(b)
    return sorted(k for k in set(fa) | set(fb) if fa.get(k) != fb.get(k))


def leaves(names):
    """Mechanism keys name the differing leaf field kinds one by one (bounded key space)."""
    return sorted(set(n.split(".")[-1] for n in names)) or ["<none>"]


def sign_class(fields, names):
    """Input class for the mechanism key: does any implicated signed field hold a negative value?"""
    fl = flat(fields)
    neg = any(isinstance(fl.get(n), int) and fl.get(n) < 0 for n in names)
    allneg = [n for n in fl if isinstance(fl[n], int) and fl[n] < 0]
    return "negative-value" if (neg or (not names and allneg)) else "non-negative"


def check_fields(name, spec, fields, res, swept):
    want = dict(fields)
    expect_dec = dict(fields)
    expect_dec.update(spec.get("extra", {}))
    ref_bytes = spec["ref_enc"](fields)
    # ---- encode direction
    try:
        obj = spec["mk"](fields)
        got = spec["enc"](obj)
    except Exception as e:  # noqa
        res.count("F.encode_compared")
        res.violation(f"C02:{name}:encode-raises-{type(e).__name__}[{sign_class(fields, [])}]",
                      f"{name}: encoding {fields} raised {e!r}", {"part": "F", "struct": name, "fields": fields})
        got = None
    if got is not None:
        res.count("F.encode_compared")
        if got != ref_bytes:
            try:
                names = diff_fields(spec_ref_dec(name, got), spec_ref_dec(name, ref_bytes)) if len(got) == len(ref_bytes) else ["<length>"]
            except Exception:  # noqa
                names = ["<unparseable>"]
            for leaf in leaves(names):
                res.violation(f"C02:{name}:encode-differs[{leaf}][{sign_class(fields, names)}]",
                              f"{name}: repo encodes {fields} as {got.hex()}, reference {ref_bytes.hex()}",
                              {"part": "F", "struct": name, "fields": fields})
    # ---- decode direction (reference image -> repo decoder)
    try:
        dec = spec["un"](spec["dec"](ref_bytes))
    except Exception as e:  # noqa
        res.count("F.decode_compared")
        res.violation(f"C02:{name}:decode-raises-{type(e).__name__}", f"{name}: decoding {ref_bytes.hex()} raised {e!r}",
                      {"part": "F", "struct": name, "fields": fields})
        return
    res.count("F.decode_compared")
    if dec != expect_dec:
        names = diff_fields(dec, expect_dec)
        for leaf in leaves(names):
            res.violation(f"C02:{name}:decode-differs[{leaf}][{sign_class(fields, [n for n in names if n.split('.')[-1] == leaf])}]",
                          f"{name}: wire {ref_bytes.hex()} decodes to {dec}, conformant encoder put {expect_dec}",
                          {"part": "F", "struct": name, "fields": fields})


def spec_ref_dec(name, b):
    return {"gnaddr": W.dec_gn_addr, "lpv": W.dec_lpv, "spv": W.dec_spv, "basic": W.dec_basic, "common": W.dec_common,
            "gbc": lambda x: W.dec_ext(W.HT_GBC, 0, x), "tsb": lambda x: W.dec_ext(W.HT_TSB, 1, x),
            "guc": lambda x: W.dec_ext(W.HT_GUC, 0, x), "lsreq": lambda x: W.dec_ext(W.HT_LS, 0, x),
            "lsrep": lambda x: W.dec_ext(W.HT_LS, 1, x),
            "btpa": lambda x: dict(zip(("dport", "sport"), W.dec_btp(x))),
            "btpb": lambda x: dict(zip(("dport", "info"), W.dec_btp(x)))}[name](b)


def run_f(spec_, res):
    T = S()
    rng = random.Random(spec_["seed"])
    name = spec_["struct"]
    spec = T[name]
    stride = spec_["stride"]
    for path, dom in spec.get("sweep", {}).items():
        dom = list(dom)
        vals = dom if len(dom) <= 512 or stride == 1 else sorted(set(dom[spec_["phase"] % stride::stride]) | set(dom[:3]) | set(dom[-3:]) | {dom[len(dom) // 2 - 1], dom[len(dom) // 2], dom[len(dom) // 2 + 1]})
        for v in vals:
            f = spec["rand"](rng)
            set_path(f, path, v)
            check_fields(name, spec, f, res, path)
            res.case((name, path, repr(sorted(flat(f).items()))))
        res.count(f"F.sweep[{name}.{path}]", len(vals))
    for path, gen in spec.get("wide", {}).items():
        for _ in range(spec_["wide_n"]):
            f = spec["rand"](rng)
            set_path(f, path, gen(rng))
            check_fields(name, spec, f, res, path)
            res.case((name, path, repr(sorted(flat(f).items()))))
        res.count(f"F.wide[{name}.{path}]", spec_["wide_n"])
    for _ in range(spec_["rand_n"]):
        f = spec["rand"](rng)
        check_fields(name, spec, f, res, None)
        res.case((name, None, repr(sorted(flat(f).items()))))
    res.sample({"part": "F", "struct": name, "example_fields": spec["rand"](rng)})


# ------------------------------------------------------------------ P: emitted packets
P_KINDS = ("beacon", "shb", "gbc", "gac", "guc", "ls_request", "ls_reply", "fwd_tsb", "fwd_gbc", "fwd_guc",
           "fwd_ls_request", "fwd_ls_reply")


def r_pos(rng):
    """Ego/area positions over the signed WGS-84 range (1/10 microdegree)."""
    if rng.random() < 0.3:
        return rng.choice((-900000000, -1, 0, 1, 900000000)), rng.choice((-1800000000, -1, 0, 1, 1800000000))
    return rng.randrange(-900000000, 900000001), rng.randrange(-1800000000, 1800000001)


def gen_p(rng):
    lat, lon = r_pos(rng)
    return {"part": "P", "kind": rng.choice(P_KINDS), "shape": rng.choice(("circle", "rect", "elip")),
            "btp": rng.choice("AB"), "dport": r_u16(rng), "p2": r_u16(rng), "scf": rng.randrange(2), "co": rng.randrange(2),
            "tcid": rng.randrange(64), "mobile": rng.randrange(2), "sn0": rng.choice((0, 1, 65533, 65534, rng.randrange(65535))),
            "hop": rng.choice((0, 1, 2, 10, 255, rng.randrange(256))), "life_ms": rng.choice((None, 50, 1000, 3150, 60000, rng.randrange(50, 600000))),
            "lat": lat, "lon": lon, "s": r_s15(rng), "h": rng.randrange(3601), "pai": rng.randrange(2),
            "a": rng.randrange(1, 1500), "b": rng.randrange(1, 1500), "angle": rng.randrange(360),
            "plen": rng.choice((0, 1, 17, 200, 1000)), "st": rng.choice(NAMED_ST), "m": 0,
            "pst": rng.choice((7, 7, 15, rng.choice(NAMED_ST), rng.choice(UNNAMED_ST))),
            "rhl": rng.choice((2, 3, 10, 255)), "mib_hop": rng.choice((2, 10, 200)), "mib_life": rng.choice((1, 60, 600))}


def clampd(v, lo, hi):
    return max(lo, min(hi, v))


def run_p_case(c, res):
    from vf.gnharness import World, btp_request, gn_request, area, tc, mid_of
    from vf.stations import gn_addr, pv_dict, addr_dict
    from vf.vclock import tst_of
    from flexstack.geonet.mib import GnIsMobile
    from flexstack.geonet.service_access_point import CommonNH
    kind = c["kind"]
    mib_over = {"itsGnIsMobile": GnIsMobile(c["mobile"]), "itsGnDefaultHopLimit": c["mib_hop"],
                "itsGnDefaultPacketLifetime": c["mib_life"]}
    lat, lon = c["lat"], c["lon"]
    # a neighbour a few metres away (kept inside the legal range)
    nlat = lat - 300 if lat > 0 else lat + 300          # never clamped at a pole: the neighbour is a few metres away
    nlon = clampd(lon + 300, -1800000000, 1800000000)
    with World() as w:
        try:
            A = w.add("A", mid_of(1), lat=lat, lon=lon, st=c["st"], mib_over=mib_over, ports=(c["dport"],), pai=bool(c["pai"]),
                      s=c["s"], h=c["h"])
            B = w.add("B", mid_of(2), lat=nlat, lon=nlon, ports=(c["dport"],))
            B.router.gn_data_request_beacon()
            w.settle()
            # ego PV of A is younger than what A knows about B (distinct timestamps in SO PV and DE PV)
            w.clock.advance(2.0)      # whole seconds: sub-second TSTs hit the C08 purge defect, decided there
            A.set_position(lat, lon, pai=bool(c["pai"]), s=c["s"], h=c["h"])
        except Exception as e:  # noqa
            res.violation(f"C02:setup-raises-{type(e).__name__}[{'negative-value' if min(lat, lon, c['s']) < 0 else 'non-negative'}]",
                          f"station setup / beacon exchange raised {e!r}", c)
            return
        A.router.sequence_number = c["sn0"]
        sn_next = (c["sn0"] + 1) % 65535
        ego = pv_dict(A.router.ego_position_vector)
        ego["addr"] = {"m": 0, "st": c["st"], "mid": mid_of(1)}
        bpv = pv_dict(B.router.ego_position_vector)
        payload = bytes((i * 7 + c["dport"]) & 0xFF for i in range(c["plen"]))
        tcd = {"scf": c["scf"], "co": c["co"], "id": c["tcid"]}
        life = None if c["life_ms"] is None else c["life_ms"] / 1000.0
        life_ms = c["mib_life"] * 1000 if c["life_ms"] is None else c["life_ms"]
        ltv = RL.best(life_ms) if life_ms < 1_000_000 else None
        hop = c["hop"] if c["hop"] > 1 else c["mib_hop"]
        ar = {"lat": lat, "lon": lon, "a": c["a"], "b": c["b"], "angle": c["angle"]}
        btp_hdr = W.enc_btp_b(c["dport"], c["p2"]) if c["btp"] == "B" else W.enc_btp_a(c["dport"], c["p2"])
        nh = 2 if c["btp"] == "B" else 1
        expected = None
        mask_lt = False
        n0 = len(w.ether.wire)
        exc = None
        phantom = {"addr": {"m": 0, "st": c.get("pst", 7), "mid": mid_of(9)}, "tst": tst_of(w.clock.now()), "lat": nlat, "lon": nlon,
                   "pai": 1, "s": 123, "h": 900}
        far = {"addr": {"m": 0, "st": 5, "mid": mid_of(33)}, "tst": 5, "lat": nlat, "lon": nlon}

        def lt_fields(ms):
            for code in range(256):
                pass
            # coarsest base on ties is not prescribed by the standard: compare the *value*, mask the code
            return ms

        try:
            if kind == "beacon":
                A.router.gn_data_request_beacon()
                expected = ("orig", {"nh": 0, "ht": W.HT_BEACON, "hst": 0, "tc": {"scf": 0, "co": 0, "id": 0}, "mobile": c["mobile"],
                                     "pl": 0, "mhl": 1}, {"so_pv": ego}, b"", 1, c["mib_life"] * 1000)
            elif kind in ("shb", "gbc", "gac", "guc"):
                req = btp_request(kind, payload, btp=c["btp"], dport=c["dport"], sport=c["p2"], info=c["p2"], shape=c["shape"],
                                  ar=area(lat, lon, c["a"], c["b"], c["angle"]), traffic=tc(c["scf"], c["co"], c["tcid"]),
                                  hop=c["hop"], lifetime=life, dest=B.addr if kind == "guc" else None)
                A.btp.btp_data_request(req)
                hst = {"circle": 0, "rect": 1, "elip": 2}[c["shape"]]
                if kind == "shb":
                    expected = ("orig", {"nh": nh, "ht": W.HT_TSB, "hst": 0, "tc": tcd, "mobile": c["mobile"], "pl": 4 + len(payload), "mhl": 1},
                                {"so_pv": ego}, btp_hdr + payload, 1, life_ms)
                elif kind in ("gbc", "gac"):
                    expected = ("orig", {"nh": nh, "ht": W.HT_GBC if kind == "gbc" else W.HT_GAC, "hst": hst, "tc": tcd, "mobile": c["mobile"],
                                         "pl": 4 + len(payload), "mhl": hop}, {"sn": sn_next, "so_pv": ego, "area": ar},
                                btp_hdr + payload, hop, life_ms)
                else:
                    de = {"addr": bpv["addr"], "tst": bpv["tst"], "lat": bpv["lat"], "lon": bpv["lon"]}
                    expected = ("orig", {"nh": nh, "ht": W.HT_GUC, "hst": 0, "tc": tcd, "mobile": c["mobile"], "pl": 4 + len(payload), "mhl": hop},
                                {"sn": sn_next, "so_pv": ego, "de_pv": de}, btp_hdr + payload, hop, life_ms)
            elif kind == "ls_request":
                A.router.gn_data_request(gn_request("guc", btp_hdr + payload, nh=CommonNH.BTP_B, hop=c["hop"], lifetime=life,
                                                    dest=gn_addr(mid_of(77), st=5)))
                expected = ("orig", {"nh": 0, "ht": W.HT_LS, "hst": 0, "tc": {"scf": 0, "co": 0, "id": 0}, "mobile": c["mobile"], "pl": 0,
                                     "mhl": c["mib_hop"]}, {"sn": sn_next, "so_pv": ego, "req_addr": {"m": 0, "st": 5, "mid": mid_of(77)}},
                            b"", c["mib_hop"], c["mib_life"] * 1000)
            elif kind == "ls_reply":
                # the request comes from a station with its own configuration: traffic class, hop budget and lifetime of the
                # REQUEST are the requester's business and must not show up in the reply this station originates
                req_mhl = c["rhl"] if c["hop"] % 2 else 255
                pkt = W.enc_packet({"version": 1, "nh": 1, "lt_mult": 1 + c["tcid"] % 60, "lt_base": c["co"] + 1, "rhl": c["rhl"]},
                                   {"nh": 0, "ht": W.HT_LS, "hst": 0, "tc": tcd, "mobile": 1 - c["mobile"], "pl": 0, "mhl": req_mhl},
                                   {"sn": 11, "so_pv": phantom, "req_addr": {"m": 0, "st": c["st"], "mid": mid_of(1)}})
                w.ether.inject("A", pkt)
                w.settle()
                de = {"addr": phantom["addr"], "tst": phantom["tst"], "lat": phantom["lat"], "lon": phantom["lon"]}
                expected = ("orig", {"nh": 0, "ht": W.HT_LS, "hst": 1, "tc": {"scf": 0, "co": 0, "id": 0}, "mobile": c["mobile"], "pl": 0,
                                     "mhl": c["mib_hop"]}, {"sn": sn_next, "so_pv": ego, "de_pv": de}, b"", c["mib_hop"], c["mib_life"] * 1000)
            else:
                # forwarding: a reference-built packet from a phantom source arrives with RHL = c.rhl
                bh = {"version": 1, "nh": 1, "lt_mult": 7, "lt_base": 2, "rhl": c["rhl"]}
                if kind == "fwd_tsb":
                    ch = {"nh": nh, "ht": W.HT_TSB, "hst": 1, "tc": tcd, "mobile": 0, "pl": 4 + len(payload), "mhl": 255}
                    x = {"sn": c["sn0"], "so_pv": phantom}
                    body = btp_hdr + payload
                elif kind == "fwd_gbc":
                    ch = {"nh": nh, "ht": W.HT_GBC, "hst": {"circle": 0, "rect": 1, "elip": 2}[c["shape"]], "tc": tcd, "mobile": 0,
                          "pl": 4 + len(payload), "mhl": 255}
                    x = {"sn": c["sn0"], "so_pv": phantom, "area": {**ar, "a": max(ar["a"], 50), "b": max(ar["b"], 50), "angle": 0}}
                    body = btp_hdr + payload
                elif kind == "fwd_guc":
                    ch = {"nh": nh, "ht": W.HT_GUC, "hst": 0, "tc": tcd, "mobile": 0, "pl": 4 + len(payload), "mhl": 255}
                    x = {"sn": c["sn0"], "so_pv": phantom, "de_pv": far}
                    body = btp_hdr + payload
                elif kind == "fwd_ls_request":
                    ch = {"nh": 0, "ht": W.HT_LS, "hst": 0, "tc": {"scf": 0, "co": 0, "id": 0}, "mobile": 0, "pl": 0, "mhl": 255}
                    x = {"sn": c["sn0"], "so_pv": phantom, "req_addr": far["addr"]}
                    body = b""
                else:
                    ch = {"nh": 0, "ht": W.HT_LS, "hst": 1, "tc": {"scf": 0, "co": 0, "id": 0}, "mobile": 0, "pl": 0, "mhl": 255}
                    x = {"sn": c["sn0"], "so_pv": phantom, "de_pv": far}
                    body = b""
                pkt = W.enc_packet(bh, ch, x, body)
                w.ether.inject("A", pkt)
                expected = ("fwd", W.enc_packet({**bh, "rhl": c["rhl"] - 1}, ch, x, body))
            w.settle()
            w.clock.advance(0.2)      # contention-based forwarding timers (<= itsGnCbfMaxTime = 100 ms)
            w.settle()
        except Exception as e:  # noqa
            exc = e
        tx = [p for (_, _, s, p) in w.ether.wire[n0:] if s == "A"]
        w.clock.heap.clear()
        if exc is not None:
            cls = ""
            if isinstance(exc, OverflowError):
                cls = "[negative-value]" if min(lat, lon, c["s"]) < 0 else "[non-negative]"
            res.violation(f"C02:emission-raises-{type(exc).__name__}[{kind}]{cls}", f"{kind}: {exc!r}", c)
            return
        if ltv is None and expected and expected[0] == "orig" and kind not in ("beacon", "ls_request", "ls_reply"):
            pass
        if not tx and (kind.startswith("fwd") or kind == "ls_reply") and c.get("pst", 7) in UNNAMED_ST:
            # a station-type code without a name: the receiver may refuse the frame as a whole; what it may not do is
            # forward it with the source address altered (decided below when something was emitted)
            res.count("P.unnamed_station_type_frame_refused")
            return
        if not tx:
            if kind in ("fwd_gbc",) and c.get("scf"):
                res.count("P.not_forwarded_allowed")
                return
            if kind.startswith("fwd") and c["scf"]:
                res.count("P.not_forwarded_allowed")
                return
            res.violation(f"C02:nothing-emitted[{kind}]", f"{kind}: nothing reached LinkLayer.send(); ether errors {[repr(e[3]) for e in w.ether.errors]}", c)
            return
        got = tx[0]
        res.count("P.packets_compared")
        res.count(f"P.kind[{kind}]")
        if expected[0] == "fwd":
            want = expected[1]
            if got != want:
                try:
                    names = diff_fields(W.dec_packet(got), W.dec_packet(want)) if len(got) == len(want) else ["<length>"]
                except Exception:  # noqa
                    names = ["<unparseable>"]
                for leaf in leaves(names):
                    res.violation(f"C02:forwarded-packet-differs[{kind}][{leaf}]", f"{kind}: got {got.hex()} want {want.hex()}", c)
            return
        _, ch, x, body, rhl, lt_req = expected
        try:
            g = W.dec_packet(got)
        except W.WireError as e:
            res.violation(f"C02:emitted-packet-unparseable[{kind}]", f"{kind}: {e}: {got.hex()}", c)
            return
        # lifetime: the *value* must be the largest representable (C20 decides the quantiser; here the code point is
        # normalised so that octet comparison does not depend on the base chosen on ties)
        gv = W.lt_ms(g["basic"]["lt_mult"], g["basic"]["lt_base"])
        want_basic = {"version": 1, "nh": 1, "lt_mult": g["basic"]["lt_mult"], "lt_base": g["basic"]["lt_base"], "rhl": rhl}
        want = W.enc_packet(want_basic, ch, x, body)
        if got != want:
            try:
                names = diff_fields(g, W.dec_packet(want)) if len(got) == len(want) else ["<length>"]
            except Exception:  # noqa
                names = ["<unparseable>"]
            neg = any(isinstance(v, int) and v < 0 for v in flat(x).values())
            lv = leaves(names)
            if set(lv) & {"mobile", "flags_reserved"} and len(got) == len(want):
                # name the flags octet as a whole: its value is the mechanism
                lv = [x for x in lv if x not in ("mobile", "flags_reserved")] + [f"flags-octet={got[7]:#04x}-want={want[7]:#04x}"]
            for leaf in lv:
                res.violation(f"C02:emitted-packet-differs[{kind}][{leaf}]", f"{kind}: got {got.hex()} want {want.hex()}", c)
        if lt_req < 1_000_000 and gv != RL.best(lt_req):
            res.violation(f"C02:emitted-lifetime-wrong[{kind}]", f"{kind}: wire lifetime {gv} ms for {lt_req} ms", c)


def run_p(spec, res):
    rng = random.Random(spec["seed"])
    for i in range(spec["cases"]):
        c = gen_p(rng)
        run_p_case(c, res)
        res.case(repr(sorted(c.items())))
        if i < 1:
            res.sample(c)


STRUCTS = ("gnaddr", "lpv", "spv", "basic", "common", "gbc", "tsb", "guc", "lsreq", "lsrep", "btpa", "btpb")


def shards(tier, seed):
    out = []
    if tier == "thorough":
        for i, s in enumerate(STRUCTS):
            out.append({"part": "F", "struct": s, "seed": seed * 100 + i, "stride": 1, "phase": 0, "wide_n": 60000, "rand_n": 30000})
        for i in range(16):
            out.append({"part": "P", "seed": seed * 7919 + i, "cases": 2500})
    else:
        for i, s in enumerate(STRUCTS):
            out.append({"part": "F", "struct": s, "seed": seed * 100 + i, "stride": 13, "phase": seed, "wide_n": 3000, "rand_n": 1500})
        for i in range(8):
            out.append({"part": "P", "seed": seed * 7919 + i, "cases": 150})
    return out


def run_shard(spec, res):
    (run_f if spec["part"] == "F" else run_p)(spec, res)


def replay(case, res):
    if case.get("part") == "F":
        T = S()
        f = case["fields"]

        def fix(d):
            for k, v in list(d.items()):
                if isinstance(v, dict) and set(v) == {"hex"}:
                    d[k] = bytes.fromhex(v["hex"])
                elif isinstance(v, dict):
                    fix(v)
        fix(f)
        check_fields(case["struct"], T[case["struct"]], f, res, None)
    else:
        run_p_case(case, res)
