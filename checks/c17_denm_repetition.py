"""C17 -- the DEN service repeats an event's DENM on schedule with a stable, unique identity.

The real DENMTransmissionManagement runs its real repetition threads; their time.sleep is a virtual sleep stepped in
lock-step by the harness (one sleeper released at a time, in wake-up order), so overlapping events interleave exactly as
their schedules say.  Every BTPDataRequest on port 2002 is time-stamped with the virtual clock and decoded; a reference
schedule (t0, t0+i, ... for ceil(T/i) messages) and identity rules decide.  Received DENMs (real encodings with varied
management containers) are fed to the real reception manager and the LDM is queried for their event position.
"""
from __future__ import annotations

import heapq
import itertools
import math
import random
import threading
import time as real_time
import types

PROPERTY = "C17"
LEVEL = "exploration"
RULE = ("scenarios of 1..6 overlapping DEN requests (emergency-vehicle application with interval 100..10000 ms and duration 0..60 s, collision-risk "
        "single shots) at event positions over the signed WGS-84 range; distinct by hash of the scenario; non-trivial = at least one repetition "
        "schedule with more than one message was compared.")
ASSUMPTIONS = ["virtual sleep: the repetition threads are real, their sleeps are released in wake-up order by the harness; a 20 s wall-clock watchdog ends a run as inconclusive",
               "the emergency-vehicle application's fixed 1 s interval is varied by setting its public attribute before triggering"]
REQUIRED_COUNTERS = ["events", "denms", "schedules_compared", "multi_message_schedules", "action_id_pairs_compared", "received_denms_in_ldm_checked",
                     "denms_of_moving_events_judged", "received_denm_streams_checked",
                     "S.schedules", "S.preempted_schedules", "S.event_schedules_judged", "S.schedules_with_an_injected_fault"]


class Lockstep:
    """Virtual sleep for real threads."""

    def __init__(self, clock):
        self.clock = clock
        self.lock = threading.Lock()
        self.sleepers = []
        self.seq = itertools.count()
        self.threads = []

    def sleep(self, dt):
        ev = threading.Event()
        with self.lock:
            heapq.heappush(self.sleepers, (self.clock.t + max(0.0, dt), next(self.seq), ev))
        ev.wait()

    def thread_factory(self):
        outer = self

        class T(threading.Thread):
            def __init__(self, *a, **k):
                super().__init__(*a, **k)
                self.daemon = True
                outer.threads.append(self)
        return T

    def quiescent(self):
        with self.lock:
            n_sleep = len(self.sleepers)
        alive = sum(1 for t in self.threads if t.is_alive())
        return alive == n_sleep, alive

    def wait_quiescent(self, timeout=20.0):
        t0 = real_time.monotonic()
        stable = 0
        while real_time.monotonic() - t0 < timeout:
            q, alive = self.quiescent()
            if q:
                stable += 1
                if stable >= 3:
                    return True
            else:
                stable = 0
            real_time.sleep(0.0002)
        return False

    def run_until(self, t_end):
        """Advance virtual time to t_end, releasing sleepers one at a time in wake-up order."""
        while True:
            if not self.wait_quiescent():
                return False
            with self.lock:
                if not self.sleepers or self.sleepers[0][0] > t_end:
                    break
                when, _, ev = heapq.heappop(self.sleepers)
            self.clock.t = max(self.clock.t, when)
            ev.set()
        self.clock.t = max(self.clock.t, t_end)
        return True


class RecBTP:
    def __init__(self, clock):
        self.clock = clock
        self.reqs = []
        self.lock = threading.Lock()

    def btp_data_request(self, request):
        with self.lock:
            self.reqs.append((self.clock.t, threading.current_thread().name, request))

    def register_indication_callback_btp(self, port, callback):
        pass


def gen(rng):
    n = rng.randrange(1, 7)
    ev = []
    for _ in range(n):
        kind = rng.choice(("emergency", "emergency", "emergency", "collision"))
        lat = rng.choice((-89.9, -33.0, -1e-6, 0.0, 41.4, 89.9, rng.uniform(-90, 90)))
        lon = rng.choice((-179.99, -70.6, -1e-6, 0.0, 2.1, 179.99, rng.uniform(-180, 180)))
        ev.append({"kind": kind, "at": round(rng.choice((0.0, 0.0, 0.05, 0.3, 1.0, 2.5, rng.uniform(0, 5))), 3), "interval_ms": rng.choice((100, 250, 1000, 1000, 3000, 10000, rng.randrange(100, 10001))),
                   "duration_ms": rng.choice((0, 100, 999, 1000, 1001, 2500, 10000, 60000, rng.randrange(0, 60001))), "lat": lat, "lon": lon, "alt": rng.choice((None, 0.0, 123.4, -50.0))})
    ev.sort(key=lambda e: e["at"])
    # the application keeps ONE emergency-vehicle service object and triggers it again at a new GNSS fix while the earlier
    # event is still repeating: the shared request position moves under the running repetition
    last_em = None
    for k, e in enumerate(ev):
        if e["kind"] != "emergency":
            continue
        if last_em is not None and rng.random() < 0.4:
            root = ev[last_em].get("reuse_of", last_em)
            e["reuse_of"] = root
            e["interval_ms"], e["duration_ms"] = ev[root]["interval_ms"], ev[root]["duration_ms"]
        last_em = k
    c = {"station_id": rng.randrange(1, 1 << 32), "events": ev}
    if rng.random() < 0.3:
        # the station's time of day is stepped forward while events repeat (first GNSS fix, NTP step): the repetition
        # period is a duration, not a time of day
        c["wall_steps"] = sorted((round(rng.uniform(0.1, 8.0), 3), rng.choice((0.35, 1.0, 3.0, 30.0))) for _ in range(rng.randrange(1, 3)))
    return c


def run_case(c, res):
    from vf.vclock import VClock
    from flexstack.facilities.decentralized_environmental_notification_service import denm_transmission_management as dtm
    from flexstack.facilities.decentralized_environmental_notification_service.denm_coder import DENMCoder
    from flexstack.facilities.ca_basic_service.cam_transmission_management import VehicleData
    from flexstack.applications.road_hazard_signalling_service.emergency_vehicle_approaching_service import EmergencyVehicleApproachingService
    from flexstack.applications.road_hazard_signalling_service.service_access_point import DENRequest
    from flexstack.facilities.local_dynamic_map.ldm_classes import TimestampIts, ReferencePosition, PositionConfidenceEllipse, Altitude
    clock = VClock().install()
    ls = Lockstep(clock)
    saved_time, saved_threading = dtm.time, dtm.threading
    wall_off = [0.0]
    wall_log = [(float("-inf"), 0.0)]       # (virtual instant, offset of the time of day from then on)
    wall = lambda: clock.t + wall_off[0]  # noqa: E731
    from flexstack.utils import time_service as _ts
    _ts.TimeService.time = staticmethod(wall)          # clock.uninstall() restores the original
    dtm.time = types.SimpleNamespace(sleep=ls.sleep, time=wall)
    dtm.threading = types.SimpleNamespace(Thread=ls.thread_factory(), Lock=threading.Lock, RLock=threading.RLock)
    try:
        coder = DENMCoder()
        btp = RecBTP(clock)
        steps = list(c.get("wall_steps") or ())

        def run_to(t_end):
            while steps and t_base + steps[0][0] <= t_end:
                at_, d_ = steps.pop(0)
                if not ls.run_until(t_base + at_):
                    return False
                wall_off[0] += d_
                wall_log.append((clock.t, wall_off[0]))
                res.count("time_of_day_steps")
            return ls.run_until(t_end)

        vd = VehicleData(station_id=c["station_id"], station_type=10)
        tm = dtm.DENMTransmissionManagement(btp, coder, vd)
        den = types.SimpleNamespace(denm_transmission_management=tm)
        t_base = clock.t
        marks = []
        svcs = {}
        pos_hist = {}      # root event index -> [(virtual time, lat, lon)] positions the application put into the shared request
        ctx = {"scenario": c}
        for i, ev in enumerate(c["events"]):
            if not run_to(t_base + ev["at"]):
                res.inconc("wall-clock watchdog while stepping the DENM repetition threads")
                return
            n0 = len(btp.reqs)
            tpv = {"lat": ev["lat"], "lon": ev["lon"]}
            if ev["alt"] is not None:
                tpv["altHAE"] = ev["alt"]
            res.count("events")
            try:
                if ev["kind"] == "emergency":
                    root = ev.get("reuse_of", i)
                    if root == i:
                        svc = svcs[i] = EmergencyVehicleApproachingService(den, duration=ev["duration_ms"])
                        svc.denm_interval = ev["interval_ms"]
                    else:
                        svc = svcs[root]
                        res.count("retriggers_of_a_running_service")
                    pos_hist.setdefault(root, []).append((clock.t, int(ev["lat"] * 1e7), int(ev["lon"] * 1e7)))
                    svc.trigger_denm_sending(tpv)
                else:
                    rp = ReferencePosition(latitude=int(ev["lat"] * 1e7), longitude=int(ev["lon"] * 1e7), position_confidence_ellipse=PositionConfidenceEllipse(4095, 4095, 3601),
                                           altitude=Altitude(800001, "unavailable"))
                    tm.send_collision_risk_warning_denm(DENRequest.with_collision_risk_warning(TimestampIts(int((wall() - 1072915200 + 5) * 1000)), rp))
            except Exception as e:  # noqa
                res.violation(f"C17:den-request-raises-{type(e).__name__}[{ev['kind']}]", f"{e!r}", ctx)
                return
            # the new thread (if any) is identified by the thread list growth
            marks.append({"ev": ev, "t0": clock.t, "thread": ls.threads[-1].name if ev["kind"] == "emergency" and ls.threads else None, "idx": i,
                          "root": ev.get("reuse_of", i)})
            if ev["kind"] == "emergency" and len(set(m["thread"] for m in marks if m["thread"])) != sum(1 for m in marks if m["thread"]):
                res.inconc("could not attribute repetition threads to events")
                return
        horizon = max([e["at"] + e["duration_ms"] / 1000.0 for e in c["events"]] + [0]) + 12.0
        if not run_to(t_base + horizon):
            res.inconc("wall-clock watchdog while stepping the DENM repetition threads")
            return
        alive = [t for t in ls.threads if t.is_alive()]
        if alive:
            res.violation("C17:repetition-still-running-after-its-duration", f"{len(alive)} repetition threads alive {horizon:.1f} s after the start", ctx)
        # ------------------------------------------------------------ decode
        by_thread = {}
        shots = []
        for (t, thr, req) in btp.reqs:
            res.count("denms")
            try:
                d = coder.decode(req.data)
            except Exception as e:  # noqa
                res.violation("C17:denm-undecodable", f"{e!r}", ctx)
                continue
            rec = {"t": t, "d": d, "req": req}
            if thr in [m["thread"] for m in marks]:
                by_thread.setdefault(thr, []).append(rec)
            else:
                shots.append(rec)
        action_ids = []
        shot_i = 0
        for m in marks:
            ev = m["ev"]
            if ev["kind"] == "collision":
                recs = shots[shot_i:shot_i + 1]
                shot_i += 1
                want_times = [m["t0"]]
            else:
                recs = by_thread.get(m["thread"], [])
                n_want = math.ceil(ev["duration_ms"] / ev["interval_ms"]) if ev["duration_ms"] > 0 else 0
                want_times = [m["t0"] + k * ev["interval_ms"] / 1000.0 for k in range(n_want)]
            res.count("schedules_compared")
            if len(want_times) > 1:
                res.count("multi_message_schedules")
            got_times = [r["t"] for r in recs]
            if len(got_times) != len(want_times):
                res.violation(f"C17:number-of-denms-differs[{'more' if len(got_times) > len(want_times) else 'fewer'}]",
                              f"interval {ev['interval_ms']} ms, duration {ev['duration_ms']} ms: {len(got_times)} DENMs, expected ceil(T/i) = {len(want_times)}", {**ctx, "event": ev})
            for a, b in zip(got_times, want_times):
                if abs(a - b) > 1e-4:
                    res.violation("C17:denm-not-at-scheduled-time", f"DENM at +{a - m['t0']:.4f} s, schedule says +{b - m['t0']:.4f} s", {**ctx, "event": ev})
                    break
            ids = set()
            last_ref = None
            for r in recs:
                mg = r["d"]["denm"]["management"]
                ids.add((mg["actionId"]["originatingStationId"], mg["actionId"]["sequenceNumber"]))
                if r["d"]["header"]["stationId"] != c["station_id"] or mg["actionId"]["originatingStationId"] != c["station_id"]:
                    res.violation("C17:station-identity-differs", f"{r['d']['header']} {mg['actionId']}", {**ctx, "event": ev})
                if last_ref is not None and mg["referenceTime"] < last_ref:
                    res.violation("C17:reference-time-decreases", f"{last_ref} -> {mg['referenceTime']}", {**ctx, "event": ev})
                last_ref = mg["referenceTime"]
                offs = [o for (ts_, o) in wall_log if ts_ < r["t"] - 1e-9][-1]
                at_step = [o for (ts_, o) in wall_log if abs(ts_ - r["t"]) <= 1e-9]      # stepped at this very instant: either side
                want_refs = [int((r["t"] + o - 1072915200 + 5) * 1000) for o in [offs] + at_step]
                want_ref = want_refs[0]
                if min(abs(mg["referenceTime"] - w_) for w_ in want_refs) > 2:
                    res.violation("C17:reference-time-not-the-transmission-time", f"{mg['referenceTime']} vs {want_ref}", {**ctx, "event": ev})
                rq = r["req"]
                ep = mg["eventPosition"]
                if rq.destination_port != 2002:
                    res.violation("C17:denm-not-on-port-2002", f"{rq.destination_port}", ctx)
                ptt = rq.gn_packet_transport_type
                if ptt.header_type.value != 4 or ptt.header_subtype.value != 0:
                    res.violation("C17:denm-not-geo-broadcast-to-a-circle", f"{ptt}", {**ctx, "event": ev})
                if rq.gn_area.latitude != ep["latitude"] or rq.gn_area.longitude != ep["longitude"] or rq.gn_area.a <= 0:
                    res.violation("C17:destination-circle-not-centred-on-event-position", f"area {rq.gn_area}, event position {ep['latitude']},{ep['longitude']}", {**ctx, "event": ev})
                if ev["kind"] == "emergency":
                    # the request's position is the one the application last wrote into it (the service object is shared
                    # by its re-triggers); a write at the very instant of a repetition may or may not be seen
                    hist = pos_hist[m["root"]]
                    # every position written at this very instant (writes and the repetition are unordered at equal
                    # virtual times), and the last one written strictly before it
                    earlier = [h for h in hist if h[0] < r["t"] - 1e-9]
                    allowed = {h[1:] for h in hist if abs(h[0] - r["t"]) <= 1e-9} | ({earlier[-1][1:]} if earlier else set())
                    if len(hist) > 1:
                        res.count("denms_of_moving_events_judged")
                else:
                    allowed = {(int(ev["lat"] * 1e7), int(ev["lon"] * 1e7))}
                if not any(abs(ep["latitude"] - a[0]) <= 1 and abs(ep["longitude"] - a[1]) <= 1 for a in allowed):
                    res.violation("C17:event-position-differs-from-request", f"{ep['latitude']},{ep['longitude']} vs {sorted(allowed)}", {**ctx, "event": ev})
            if len(ids) > 1:
                res.violation("C17:action-identifier-changes-within-an-event", f"{sorted(ids)}", {**ctx, "event": ev})
            if ids:
                action_ids.append((m["idx"], next(iter(ids))))
        for (i, a), (j, b) in itertools.combinations(action_ids, 2):
            res.count("action_id_pairs_compared")
            if a == b:
                res.violation("C17:distinct-events-share-an-action-identifier", f"events {i} and {j} both use action id {a}", ctx)
                break
    finally:
        # release whatever still sleeps so that the daemon threads can end
        with ls.lock:
            for (_, _, ev_) in ls.sleepers:
                ev_.set()
            ls.sleepers.clear()
        dtm.time, dtm.threading = saved_time, saved_threading
        clock.uninstall()


def run_reception(spec, res):
    """Received DENMs are stored in the LDM at their event position."""
    from vf.vclock import VClock
    from vf import ldmharness as H
    from flexstack.facilities.decentralized_environmental_notification_service.denm_coder import DENMCoder
    from flexstack.facilities.decentralized_environmental_notification_service.denm_reception_management import DENMReceptionManagement
    from flexstack.facilities.decentralized_environmental_notification_service.denm_transmission_management import DecentralizedEnvironmentalNotificationMessage
    from flexstack.facilities.local_dynamic_map.ldm_classes import RegisterDataConsumerReq, RequestDataObjectsReq, AccessPermission
    from flexstack.btp.service_access_point import BTPDataIndication
    rng = random.Random(spec["seed"])
    clock = VClock().install()
    clock.install_ldm()
    try:
        coder = DENMCoder()
        for k in range(spec["cases"]):
            ldm = H.make_ldm("Dictionary")
            btp = types.SimpleNamespace(register_indication_callback_btp=lambda port, callback: None)
            rx = DENMReceptionManagement(coder, btp, ldm)
            ldm.if_ldm_4.register_data_consumer(RegisterDataConsumerReq(1, (AccessPermission.DENM,), H.area()))
            m = DecentralizedEnvironmentalNotificationMessage()
            mg = m.denm["denm"]["management"]
            lat = rng.choice((-899999999, -1, 0, 1, 415000000, 899999999, rng.randrange(-900000000, 900000001)))
            lon = rng.choice((-1799999999, -1, 0, 1, 21000000, 1799999999, rng.randrange(-1800000000, 1800000001)))
            mg["eventPosition"]["latitude"], mg["eventPosition"]["longitude"] = lat, lon
            mg["eventPosition"]["altitude"]["altitudeValue"] = rng.choice((800001, 0, -100000, 800000, rng.randrange(-100000, 800001)))
            mg["actionId"] = {"originatingStationId": rng.randrange(1 << 32), "sequenceNumber": rng.randrange(65536)}
            mg["detectionTime"] = rng.randrange(1 << 40)
            mg["referenceTime"] = rng.randrange(1 << 40)
            mg["stationType"] = rng.randrange(16)
            mg["validityDuration"] = rng.randrange(86401)
            if rng.random() < 0.5:
                mg.pop("termination", None)
            else:
                mg["termination"] = rng.choice(("isCancellation", "isNegation"))
            mg["relevanceDistance"] = rng.choice(("lessThan50m", "lessThan1000m", "over10km"))
            m.denm["header"]["stationId"] = mg["actionId"]["originatingStationId"]
            case = {"part": "rx", "management": {k2: (v if not isinstance(v, dict) else dict(v)) for k2, v in mg.items()}}
            try:
                data = coder.encode(m.denm)
            except Exception as e:  # noqa
                res.inconc(f"harness could not encode a DENM: {e!r}")
                return
            try:
                rx.reception_callback(BTPDataIndication(destination_port=2002, data=data, length=len(data)))
            except Exception as e:  # noqa
                res.violation(f"C17:reception-raises-{type(e).__name__}", f"{e!r}", case)
                continue
            r = ldm.if_ldm_4.request_data_objects(RequestDataObjectsReq(1, (1,), None, None, None))
            res.count("received_denms_in_ldm_checked")
            objs = [o for o in r.data_objects if "denm" in o.get("dataObject", {})]
            if len(objs) != 1:
                res.violation("C17:received-denm-not-stored-in-ldm", f"{len(objs)} DENM objects in the LDM after one reception", case)
                continue
            loc = objs[0]["location"]["referencePosition"]
            if loc["latitude"] != lat or loc["longitude"] != lon:
                res.violation("C17:received-denm-stored-at-another-position", f"LDM location {loc['latitude']},{loc['longitude']} event position {lat},{lon}", case)
            if objs[0]["dataObject"]["denm"]["management"]["actionId"] != mg["actionId"]:
                res.violation("C17:stored-denm-differs-from-received", "", case)
            res.case(repr(case))
            # ---- a stream of DENMs into ONE receiver: several originating stations whose events share sequence numbers
            # (every station numbers its events from 0), repetitions of an event, arrival out of generation order
            if k % 3 == 0:
                ldm = H.make_ldm("Dictionary")
                rx = DENMReceptionManagement(coder, btp, ldm)
                ldm.if_ldm_4.register_data_consumer(RegisterDataConsumerReq(1, (AccessPermission.DENM,), H.area()))
                events = {}
                stream = []
                for j in range(rng.randrange(2, 7)):
                    aid = (rng.choice((101, 202, 303)), rng.choice((0, 0, 1)))
                    if aid not in events:
                        events[aid] = (rng.randrange(-900000000, 900000001), rng.randrange(-1800000000, 1800000001))
                    stream.append({"aid": aid, "pos": events[aid], "ref": rng.choice((10 ** 9, 10 ** 9 + 500, 10 ** 9 - 700, rng.randrange(10 ** 9 - 5000, 10 ** 9 + 5000)))})
                seen = set()
                for j, ev in enumerate(stream):
                    m = DecentralizedEnvironmentalNotificationMessage()
                    mg = m.denm["denm"]["management"]
                    mg["eventPosition"]["latitude"], mg["eventPosition"]["longitude"] = ev["pos"]
                    mg["actionId"] = {"originatingStationId": ev["aid"][0], "sequenceNumber": ev["aid"][1]}
                    mg["detectionTime"] = ev["ref"]
                    mg["referenceTime"] = ev["ref"]
                    mg["stationType"] = 5
                    m.denm["header"]["stationId"] = ev["aid"][0]
                    scase = {"part": "rx", "stream": [{"aid": list(e["aid"]), "pos": list(e["pos"]), "ref": e["ref"]} for e in stream[:j + 1]]}
                    try:
                        data = coder.encode(m.denm)
                        rx.reception_callback(BTPDataIndication(destination_port=2002, data=data, length=len(data)))
                    except Exception as e:  # noqa
                        res.violation(f"C17:reception-raises-{type(e).__name__}[stream]", f"{e!r}", scase)
                        break
                    seen.add(ev["aid"])
                    r = ldm.if_ldm_4.request_data_objects(RequestDataObjectsReq(1, (1,), None, None, None))
                    objs = [o for o in r.data_objects if "denm" in o.get("dataObject", {})]
                    res.count("received_denms_in_ldm_checked")
                    res.count("received_denm_streams_checked")
                    mine = [o for o in objs if (o["dataObject"]["denm"]["management"]["actionId"]["originatingStationId"],
                                                o["dataObject"]["denm"]["management"]["actionId"]["sequenceNumber"]) == ev["aid"]]
                    older = any(e2["aid"] != ev["aid"] and e2["aid"][1] == ev["aid"][1] and e2["ref"] > ev["ref"] for e2 in stream[:j])
                    cls = "[another-station's-event-with-the-same-sequence-number-and-a-newer-reference-time-was-received-before]" if older else ""
                    if not mine:
                        res.violation("C17:received-denm-not-stored-in-ldm[stream]" + cls, f"DENM {j} with action id {ev['aid']} is not in the LDM ({len(objs)} DENM records)", scase)
                    elif not any((o["location"]["referencePosition"]["latitude"], o["location"]["referencePosition"]["longitude"]) == ev["pos"] for o in mine):
                        res.violation("C17:received-denm-stored-at-another-position[stream]", f"action id {ev['aid']}", scase)
                    have = {(o["dataObject"]["denm"]["management"]["actionId"]["originatingStationId"], o["dataObject"]["denm"]["management"]["actionId"]["sequenceNumber"]) for o in objs}
                    if not seen <= have:
                        res.violation("C17:earlier-received-event-lost-from-ldm[stream]", f"missing {sorted(seen - have)}", scase)
    finally:
        clock.uninstall()


# ------------------------------------------------------------------------------------------ part S: schedules
# Overlapping events run in concurrent repetition threads of ONE DENMTransmissionManagement.  Part S puts those threads
# under the controlled scheduler (vf/sched.py): the threads are actors, time.sleep is virtual, and the interleaving of the
# bytecode instructions of denm_transmission_management.py is chosen (every single preemption, sampled pairs, random).
_INS = None


def sched_scenario(rng, fault=False):
    n = rng.choice((2, 2, 3)) if not fault else 4
    interval = rng.choice((100, 100, 250))
    return {"part": "S", "station_id": rng.randrange(1, 1 << 32), "fault_ordinals": [0] if fault else [],
            "events": [{"interval_ms": interval, "duration_ms": interval * rng.choice((2, 3)), "lat": round(rng.uniform(-80, 80), 5), "lon": round(rng.uniform(-170, 170), 5)}
                       for _ in range(n)]}


def sched_execute(c, plan, policy, log_from, instr_points):
    global _INS
    from vf import sched as S
    from vf.vclock import VClock
    from flexstack.facilities.decentralized_environmental_notification_service import denm_transmission_management as dtm
    from flexstack.facilities.decentralized_environmental_notification_service.denm_coder import DENMCoder
    from flexstack.facilities.ca_basic_service.cam_transmission_management import VehicleData
    from flexstack.applications.road_hazard_signalling_service.emergency_vehicle_approaching_service import EmergencyVehicleApproachingService
    if _INS is None:
        _INS = S.Instrument([dtm])
    clock = VClock().install()
    t_base = clock.t
    saved_time, saved_threading = dtm.time, dtm.threading
    sc = S.Scheduler(instr_points=instr_points)

    def on_time(v):
        clock.t = t_base + v
    sc.on_time = on_time
    dtm.time = types.SimpleNamespace(sleep=S.sched_sleep, time=clock.now)
    dtm.threading = types.SimpleNamespace(Thread=S.SchedThread, Lock=S.Lock, RLock=S.RLock)
    out = {"reqs": [], "owner": {}, "faulted": [], "calls": 0}
    try:
        coder = _CODER[0] if _CODER else _CODER.append(DENMCoder()) or _CODER[0]

        class Rec:
            def btp_data_request(self, request):
                a = sc.by_ident.get(threading.get_ident())
                k_ = out["calls"]
                out["calls"] += 1
                if k_ in c.get("fault_ordinals", ()):
                    # injected fault: the lower layers refuse this DENM (after a scheduling point, so that other events
                    # can start while the failing hand-over is under way)
                    if a is not None:
                        sc.sync_point(a, "transmit")
                    out["faulted"].append(a.name if a else "main")
                    raise RuntimeError("injected fault: lower layers refuse the request")
                out["reqs"].append((sc.vtime, a.name if a else "main", request))
                if a is not None:
                    sc.sync_point(a, "transmit")

            def register_indication_callback_btp(self, port, callback):
                pass
        vd = VehicleData(station_id=c["station_id"], station_type=10)
        tm = dtm.DENMTransmissionManagement(Rec(), coder, vd)
        den = types.SimpleNamespace(denm_transmission_management=tm)

        def requester():
            for i, ev in enumerate(c["events"]):
                svc = EmergencyVehicleApproachingService(den, duration=ev["duration_ms"])
                svc.denm_interval = ev["interval_ms"]
                n0 = sc.thread_seq
                svc.trigger_denm_sending({"lat": ev["lat"], "lon": ev["lon"]})
                if sc.thread_seq == n0 + 1:
                    out["owner"][i] = [a.name for a in sc.actors][-1]
        sc.add_actor("requester", requester)
        out["outcome"] = sc.run(plan=plan, policy=policy, log_from=log_from)
        out["sched"] = sc
    finally:
        dtm.time, dtm.threading = saved_time, saved_threading
        clock.uninstall()
    return out


_CODER = []


def sched_one(c, plan, policy, res, mode, log_from=None, instr_points=True):
    from vf import sched as S
    out = sched_execute(c, plan, policy, log_from, instr_points)
    sc, oc = out["sched"], out["outcome"]
    res.count("S.schedules")
    if oc.get("timeout"):
        res.count("S.cut_short")
        return sc
    coder = _CODER[0]
    ctx = {"scenario": c, "devs": sorted(sc.devs.items()), "instr_points": instr_points}
    if oc["preemptions"]:
        res.count("S.preempted_schedules")
    res.case(("S", repr(c["events"]), instr_points, S.switch_signature(sc)), nontrivial=bool(oc["preemptions"]))
    if oc["deadlock"]:
        res.violation("C17:S:deadlock", f"{oc.get('blocked')}", ctx)
        return sc
    real_exc = [(name, e) for name, e in oc["exceptions"] if "injected fault" not in repr(e)]
    for name, e in real_exc:
        res.violation(f"C17:S:repetition-thread-raises-{type(e).__name__}", f"{name}: {e!r}", ctx)
    if real_exc:
        return sc
    if out["faulted"]:
        res.count("S.schedules_with_an_injected_fault")
    per_actor = {}
    for (t, who, req) in out["reqs"]:
        res.count("S.denms")
        d = coder.decode(req.data)
        per_actor.setdefault(who, []).append((t, d, req))
    ids_of_event = {}
    for i, ev in enumerate(c["events"]):
        who = out["owner"].get(i)
        recs = per_actor.get(who, [])
        want = math.ceil(ev["duration_ms"] / ev["interval_ms"])
        res.count("S.event_schedules_judged")
        if who in out["faulted"] or (who is None and out["faulted"]):
            want = len(recs)          # an event whose hand-over was refused is not judged for its count
        if len(recs) != want:
            res.violation(f"C17:number-of-denms-differs[{'more' if len(recs) > want else 'fewer'}][concurrent-events]",
                          f"event {i}: {len(recs)} DENMs handed over by its repetition thread, expected ceil(T/i) = {want}", ctx)
        ids = set()
        for (t, d, req) in recs:
            mg = d["denm"]["management"]
            ids.add((mg["actionId"]["originatingStationId"], mg["actionId"]["sequenceNumber"]))
            ep = mg["eventPosition"]
            if abs(ep["latitude"] - int(ev["lat"] * 1e7)) > 1 or abs(ep["longitude"] - int(ev["lon"] * 1e7)) > 1:
                res.violation("C17:event-position-differs-from-request[concurrent-events]", f"event {i}: DENM carries {ep['latitude']},{ep['longitude']}, request {ev['lat']},{ev['lon']}", ctx)
            if req.gn_area.latitude != ep["latitude"] or req.gn_area.longitude != ep["longitude"]:
                res.violation("C17:destination-circle-not-centred-on-event-position[concurrent-events]", f"event {i}", ctx)
            if mg["actionId"]["originatingStationId"] != c["station_id"] or d["header"]["stationId"] != c["station_id"]:
                res.violation("C17:station-identity-differs[concurrent-events]", f"event {i}", ctx)
        if len(ids) > 1:
            res.violation("C17:action-identifier-changes-within-an-event[concurrent-events]", f"event {i}: {sorted(ids)}", ctx)
        ids_of_event[i] = ids
    for i, j in itertools.combinations(sorted(ids_of_event), 2):
        res.count("S.action_id_pairs_compared")
        if ids_of_event[i] & ids_of_event[j]:
            res.violation("C17:distinct-events-share-an-action-identifier[concurrent-events]", f"events {i} and {j}: {sorted(ids_of_event[i] & ids_of_event[j])}", ctx)
    return sc


def run_sched(spec, res):
    from vf import explore
    c = spec["scenario"]
    rng = random.Random(spec["seed"])

    def run_one(plan, policy, mode_, log_from, instr_points):
        return sched_one(c, plan, policy, res, mode_, log_from=log_from, instr_points=instr_points)
    explore.explore(run_one, res, spec["mode"], spec["budget"], spec["shard"], spec["nshards"], rng)


def run_shard(spec, res):
    if spec.get("part") == "S":
        run_sched(spec, res)
        return
    if spec.get("part") == "rx":
        run_reception(spec, res)
        return
    rng = random.Random(spec["seed"])
    for k in range(spec["cases"]):
        c = gen(rng)
        run_case(c, res)
        res.case(repr(c))
        if k == 0:
            res.sample(c)


def shards(tier, seed):
    rng = random.Random(seed * 733 + 17)
    sched = []
    for k in range(2 if tier == "quick" else 6):
        c = sched_scenario(rng, fault=(k % 2 == 1))      # every other scenario: the first DENM handed over is refused by the lower layers
        for mode, nsh, budget in (("instr", 2, 400 if tier == "quick" else 4000), ("random", 1, 150 if tier == "quick" else 3000)):
            for sh in range(nsh):
                sched.append({"part": "S", "scenario": c, "mode": mode, "shard": sh, "nshards": nsh, "budget": budget, "seed": seed * 739 + k * 7 + sh})
    if tier == "thorough":
        return [{"seed": seed * 127 + i, "cases": 400} for i in range(14)] + [{"part": "rx", "seed": seed * 131 + i, "cases": 5000} for i in range(2)] + sched
    return [{"seed": seed * 127 + i, "cases": 10} for i in range(7)] + [{"part": "rx", "seed": seed * 131, "cases": 300}] + sched


def replay(case, res):
    if "devs" in case:
        sched_one(case["scenario"], tuple(tuple(d) for d in case["devs"]), None, res, "replay", instr_points=case.get("instr_points", True))
    elif "scenario" in case:
        run_case(case["scenario"], res)
    else:
        run_reception({"seed": 0, "cases": 300}, res)
