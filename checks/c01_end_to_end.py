"""C01 -- end-to-end payload delivery between stations through BTP and GeoNetworking.

2-5 real stations (GN router + BTP router + recording handlers) on the simulated ether under virtual time.  Every payload
carries a unique tag; after the ether is drained and all timers up to LS give-up have fired, an exactly-once / conservation
checker compares the handler invocations of every station with the expected receiver set (topology + EN 302 931 oracle),
the request order per destination, and the metadata of the indication with what the sender had at request time.
"""
from __future__ import annotations

import math
import random

from vf.ref import geo as G

PROPERTY = "C01"
LEVEL = "exploration"
RULE = ("scenarios = (station layout anywhere on the globe, topology mesh/line, SIMPLE/CBF, handler ports, request/clock/beacon "
        "history incl. GUC bursts while a location-service lookup is pending); distinct by hash of the scenario; non-trivial = "
        "at least one request had a non-empty expected receiver set that was checked.")
ASSUMPTIONS = ["receivers inside the C07 tolerance band of a geo area are not judged for that request",
               "store-carry-forward traffic class is only generated when the sender has a neighbour (the SCF buffers are documented stubs)",
               "geo-broadcast/anycast reach is judged in full-mesh topologies (every station hears the source); line topologies judge unicast and the location service"]
REQUIRED_COUNTERS = ["requests", "expected_deliveries_checked", "forbidden_deliveries_checked", "ls_lookups", "guc_while_ls_pending", "relay.deliveries_judged"]

PORTPOOL = (0, 1, 2001, 2002, 2018, 3000, 65535)


def to_int(deg):
    return int(round(deg * 1e7))


def gen(rng):
    r = rng.random()
    if r < 0.25:
        lat, lon = rng.choice(((-33.9, 151.2), (-23.5, -46.6), (64.1, -21.9), (1e-5, 1e-5), (-1e-5, -1e-5), (10.0, 179.9998), (-10.0, -179.9998), (80.0, 10.0)))
    else:
        lat, lon = rng.uniform(-75, 75), rng.uniform(-180, 180)
    n = rng.randrange(2, 6)
    topo = rng.choice(("mesh", "mesh", "line"))
    st = []
    for i in range(n):
        if topo == "line":
            north, east = rng.uniform(-20, 20), 150.0 * i + rng.uniform(-10, 10)
        else:
            north, east = rng.uniform(-400, 400), rng.uniform(-400, 400)
        la, lo = G.destination(lat, lon, north, east)
        ports = sorted(set(rng.sample(PORTPOOL, rng.randrange(1, 4)) + [2001]))
        st.append({"lat": to_int(la), "lon": to_int(lo), "ports": ports, "pai": rng.randrange(2), "s": rng.randrange(0, 4000), "h": rng.randrange(3600),
                   "st": rng.choice(tuple(range(12)) + (15,))})
    ops = []
    beac = [i for i in range(n) if rng.random() < 0.8]
    for i in beac:
        ops.append({"op": "beacon", "st": i})
    ops.append({"op": "drain"})
    nreq = rng.randrange(1, 9)
    for _ in range(nreq):
        r = rng.random()
        if r < 0.12:
            ops.append({"op": "adv", "dt": rng.choice((0.001, 0.05, 0.3, 1.0, 2.5))})
        if r < 0.25:
            ops.append({"op": "beacon", "st": rng.randrange(n)})
        snd = rng.randrange(n)
        if rng.random() < 0.3:
            # a station gets a new position fix (a few metres, new speed/heading) -- through the router's own TPV refresh
            # (whole-second timestamps: several fixes share one timestamp, or the timestamp steps back below the
            # millisecond one installed before) or with a millisecond timestamp; often it is the next sender
            ops.append({"op": "move", "st": snd if rng.random() < 0.7 else rng.randrange(n), "dn": rng.uniform(-3, 3), "de": rng.uniform(-3, 3),
                        "s": rng.randrange(0, 4000), "h": rng.randrange(3600), "via": rng.choice(("tpv", "tpv", "ms"))})
        kind = rng.choice(("shb", "gbc", "gac", "guc", "guc"))
        if topo == "line" and kind in ("gbc", "gac"):
            kind = "guc"
        req = {"op": "req", "snd": snd, "kind": kind, "btp": rng.choice("AB"), "dport": rng.choice(PORTPOOL + (rng.randrange(65536),)),
               "p2": rng.choice((0, 1, 65535, rng.randrange(65536))), "plen": rng.choice((0, 1, 5, 100, 1000, 1400, rng.randrange(1401))),
               "tcid": rng.randrange(64), "co": rng.randrange(2), "scf": 0, "hop": rng.choice((0, 1, 2, 5, 10, 255)),
               "life_ms": rng.choice((None, 1000, 60000, 500))}
        if kind in ("gbc", "gac"):
            c = rng.randrange(n)
            req["area"] = {"lat": st[c]["lat"], "lon": st[c]["lon"], "shape": rng.randrange(3), "a": rng.choice((30, 150, 400, 1200)),
                           "b": rng.choice((20, 100, 400)), "angle": rng.choice((0, 30, 90, 200, 359))}
        if kind == "guc":
            d = rng.randrange(n)
            if d == snd:
                d = (d + 1) % n
            req["dst"] = d
            burst = rng.choice((1, 1, 2, 3))
            ops.append(req)
            for k in range(burst - 1):
                r3 = rng.random()
                if r3 < 0.3:
                    ops.append({"op": "beacon", "st": rng.choice([x for x in range(n) if x != snd])})
                    ops.append({"op": "deliver_one"})
                elif r3 < 0.7:
                    # an unrelated frame (often from the destination itself) overtakes the location-service exchange:
                    # frames of different senders have no mutual order on the air
                    who = d if rng.random() < 0.7 else rng.choice([x for x in range(n) if x != snd])
                    ops.append({"op": rng.choice(("beacon", "beacon", "shb_from")), "st": who})
                    ops.append({"op": "deliver_from", "from": who, "to": snd})
                r2 = dict(req)
                r2["plen"] = rng.choice((0, 3, 50))
                r2["dport"] = rng.choice(PORTPOOL)
                ops.append(r2)
            ops.append({"op": "drain"})
            continue
        ops.append(req)
        if rng.random() < 0.7:
            ops.append({"op": "drain"})
    # non-default configuration of timers and ranges (the same on every station of the scenario)
    mib = {"itsGnLocationServiceRetransmitTimer": rng.choice((1000, 1000, 500, 1500)), "itsGnLocationServiceMaxRetrans": rng.choice((10, 10, 2, 5)),
           "itsGnCbfMaxTime": rng.choice((100, 100, 50, 200)), "itsGnCbfMinTime": rng.choice((1, 1, 10)),
           "itsGnDefaultMaxCommunicationRange": rng.choice((1000, 1000, 500, 3000)), "itsGnDPLLength": rng.choice((8, 8, 16, 32)),      # never shorter than the default: with a 2-entry duplicate list a burst of 3 GUCs re-broadcast by several forwarders is legitimately re-delivered (C06 models short lists exactly)
           "itsGnLifetimeLocTE": rng.choice((20, 20, 60))}
    return {"base": [lat, lon], "topo": topo, "alg": rng.choice((1, 2)), "stations": st, "ops": ops, "mib": mib}


def gen_ls_overtake(rng):
    """Directed class: the destination of a burst of unicast requests is not yet known to the sender (it has not beaconed), so
    the first request starts a location-service lookup; while the lookup is pending a beacon / single-hop broadcast of the
    destination overtakes the LS exchange (the sender now has a position vector and a neighbour entry for it), and further
    requests follow.  All of them must arrive exactly once, in request order."""
    c = gen(rng)
    while c["topo"] != "mesh":
        c = gen(rng)
    n = len(c["stations"])
    snd = rng.randrange(n)
    d = (snd + 1 + rng.randrange(n - 1)) % n
    ops = [{"op": "beacon", "st": i} for i in range(n) if i != d and rng.random() < 0.8] + [{"op": "drain"}]
    base = {"op": "req", "snd": snd, "kind": "guc", "btp": rng.choice("AB"), "dport": 2001, "p2": 1, "plen": 5, "tcid": rng.randrange(64), "co": 0, "scf": 0,
            "hop": rng.choice((1, 2, 10)), "life_ms": rng.choice((None, 60000)), "dst": d}
    ops.append(dict(base))
    for k in range(rng.randrange(1, 4)):
        if rng.random() < 0.8:
            ops.append({"op": rng.choice(("beacon", "shb_from")), "st": d})
            ops.append({"op": "deliver_from", "from": d, "to": snd})
        ops.append({**base, "plen": rng.choice((0, 3, 50))})
    ops.append({"op": "drain"})
    c["ops"] = ops
    return c


def run_case(c, res):
    from vf.gnharness import World, btp_request, area as mk_area, tc, mid_of
    from vf.stations import pv_dict
    from flexstack.geonet.mib import AreaForwardingAlgorithm
    n = len(c["stations"])
    with World() as w:
        S = []
        for i, sd in enumerate(c["stations"]):
            S.append(w.add(f"S{i}", mid_of(i + 1), lat=sd["lat"], lon=sd["lon"], st=sd["st"], pai=bool(sd["pai"]), s=sd["s"], h=sd["h"],
                           ports=sd["ports"], mib_over={"itsGnAreaForwardingAlgorithm": AreaForwardingAlgorithm(c["alg"]), **c.get("mib", {})}))
        if c["topo"] == "line":
            for i in range(n - 1):
                w.ether.connect(f"S{i}", f"S{i + 1}")
        reqs = []
        tagno = 0
        pos = [(sd["lat"], sd["lon"]) for sd in c["stations"]]
        dyn = [(bool(sd["pai"]), sd["s"], sd["h"]) for sd in c["stations"]]
        for op in c["ops"]:
            try:
                if op["op"] == "beacon":
                    S[op["st"]].router.gn_data_request_beacon()
                elif op["op"] == "drain":
                    w.settle()
                    w.clock.advance(c.get("mib", {}).get("itsGnCbfMaxTime", 100) / 1000.0 + 0.05)
                    w.settle()
                elif op["op"] == "deliver_one":
                    w.ether.step()
                elif op["op"] == "shb_from":
                    S[op["st"]].btp.btp_data_request(btp_request("shb", b"unrelated", btp="B", dport=2001))
                elif op["op"] == "deliver_from":
                    q = w.ether.queue
                    for k, item in enumerate(q):
                        if item[1] == f"S{op['from']}" and item[2] == f"S{op['to']}":
                            del q[k]
                            q.appendleft(item)
                            w.ether.step()
                            res.count("frames_overtaking_ls_exchange")
                            break
                elif op["op"] == "adv":
                    w.clock.advance(op["dt"])
                    w.settle()
                    for k_, s_ in enumerate(S):   # stations keep their position vectors current
                        s_.set_position(pos[k_][0], pos[k_][1], pai=dyn[k_][0], s=dyn[k_][1], h=dyn[k_][2])
                elif op["op"] == "move":
                    w.settle()
                    k_ = op["st"]
                    la, lo = G.destination(pos[k_][0] / 1e7, pos[k_][1] / 1e7, op["dn"], op["de"])
                    if op["via"] == "tpv":
                        import datetime
                        iso = datetime.datetime.fromtimestamp(int(w.clock.now()), datetime.timezone.utc).strftime("%Y-%m-%dT%H:%M:%S.000Z")
                        S[k_].router.refresh_ego_position_vector({"lat": la, "lon": lo, "speed": op["s"] / 100.0, "track": op["h"] / 10.0, "time": iso, "mode": 3})
                        pv_ = S[k_].router.ego_position_vector
                        pos[k_] = (pv_.latitude, pv_.longitude)
                        dyn[k_] = (bool(pv_.pai), pv_.s, pv_.h)
                    else:
                        pos[k_] = (to_int(la), to_int(lo))
                        dyn[k_] = (dyn[k_][0], op["s"], op["h"])
                        S[k_].set_position(pos[k_][0], pos[k_][1], pai=dyn[k_][0], s=op["s"], h=op["h"])
                    res.count("position_fixes")
                elif op["op"] == "req":
                    tagno += 1
                    snd = S[op["snd"]]
                    tag = b"%d|%d|" % (op["snd"], tagno)
                    payload = (tag + bytes((tagno * 31 + k) & 0xFF for k in range(max(0, op["plen"] - len(tag)))))
                    ar = op.get("area")
                    dst_known = None
                    pending = False
                    if op["kind"] == "guc":
                        ent = snd.router.location_table.get_entry(S[op["dst"]].addr)
                        dst_known = ent is not None and not ent.ls_pending
                        pending = ent is not None and ent.ls_pending
                    req = btp_request(op["kind"], payload, btp=op["btp"], dport=op["dport"], sport=op["p2"], info=op["p2"],
                                      shape=("circle", "rect", "elip")[ar["shape"]] if ar else "circle",
                                      ar=mk_area(ar["lat"], ar["lon"], ar["a"], ar["b"], ar["angle"]) if ar else None,
                                      traffic=tc(op["scf"], op["co"], op["tcid"]), hop=op["hop"],
                                      lifetime=None if op["life_ms"] is None else op["life_ms"] / 1000.0,
                                      dest=S[op["dst"]].addr if op["kind"] == "guc" else None)
                    rec = {"op": op, "tag": tag, "payload": payload, "t": w.clock.now(), "pv": pv_dict(snd.router.ego_position_vector), "pos": list(pos),
                           "dst_known": dst_known, "pending": pending, "exc": None}
                    reqs.append(rec)
                    res.count("requests")
                    res.count(f"req[{op['kind']}]")
                    if op["kind"] == "guc":
                        if not dst_known and not pending:
                            res.count("ls_lookups")
                        if pending:
                            res.count("guc_while_ls_pending")
                    try:
                        snd.btp.btp_data_request(req)
                    except Exception as e:  # noqa
                        rec["exc"] = e
            except Exception as e:  # noqa
                res.violation(f"C01:harness-op-raises-{type(e).__name__}[{op['op']}]", f"{e!r}", c)
                return
        # quiesce: drain, CBF timers, LS retransmissions up to give-up
        w.settle()
        m_ = c.get("mib", {})
        for _ in range(int(m_.get("itsGnLocationServiceMaxRetrans", 10) * m_.get("itsGnLocationServiceRetransmitTimer", 1000) / 1000.0) + 4):
            w.clock.advance(1.0)
            if w.settle() == -1:
                res.violation("C01:ether-does-not-quiesce", "delivery rounds bound hit", c)
                return
        errs = w.ether.errors
        # ---------------------------------------------------------------- checker
        # handler log per station: (t, registered port, indication)
        got = {}     # tag -> list of (station index, handler port, indication)
        for i, s_ in enumerate(S):
            for (t, port, ind) in s_.btp_ind:
                tg = bytes(ind.data).split(b"|")
                key = b"|".join(tg[:2]) + b"|" if len(tg) >= 3 else bytes(ind.data[:8])
                got.setdefault(key, []).append((i, port, ind, t))
        known_tags = {r["tag"] for r in reqs}
        for key in got:
            if key not in known_tags and not key.startswith(b"unrelate"):      # the harness's own unrelated single-hop broadcasts
                res.violation("C01:delivery-of-unknown-payload", f"handler got payload with tag {key!r}", c)
        order_seen = {}
        for r in reqs:
            op = r["op"]
            kind = op["kind"]
            snd = op["snd"]
            if r["exc"] is not None:
                neg = min(r["pv"]["lat"], r["pv"]["lon"]) < 0 or (op.get("area") and min(op["area"]["lat"], op["area"]["lon"]) < 0)
                cls = f"[{'negative-coordinate' if neg else 'non-negative'}]" if isinstance(r["exc"], OverflowError) else ""
                res.violation(f"C01:request-raises-{type(r['exc']).__name__}[{kind}]{cls}", f"{r['exc']!r}", {**c, "_req": op})
                continue
            dl = got.get(r["tag"], [])
            must, may, forbidden = set(), set(), set()
            nb = set(range(n)) - {snd} if c["topo"] == "mesh" else {x for x in (snd - 1, snd + 1) if 0 <= x < n}
            if kind == "shb":
                must = set(nb)
            elif kind in ("gbc", "gac"):
                ar = op["area"]
                for i in range(n):
                    if i == snd:
                        continue
                    v = G.classify(ar["shape"], ar["a"], ar["b"], ar["angle"], ar["lat"] / 1e7, ar["lon"] / 1e7,
                                   r["pos"][i][0] / 1e7, r["pos"][i][1] / 1e7)
                    if v != "band" and any(o_["op"] == "move" for o_ in c["ops"]):
                        # stations move by a few metres: a receiver within 10 m of the border is not judged
                        d_ = [G.classify(ar["shape"], max(1, ar["a"] + k2), max(1, ar["b"] + k2), ar["angle"], ar["lat"] / 1e7, ar["lon"] / 1e7,
                                         r["pos"][i][0] / 1e7, r["pos"][i][1] / 1e7) for k2 in (-10, 10)]
                        if any(x != v for x in d_):
                            v = "band"
                    (must if v == "in" else may if v == "band" else forbidden).add(i)
                size = G.area_m2(ar["shape"], ar["a"], ar["a"] if ar["shape"] == 0 else ar["b"])
                if size > 10e6:
                    must, may = set(), set()      # refused by area-size control (C07)
            else:
                must = {op["dst"]}
                if c["topo"] == "line":
                    hops = abs(op["dst"] - snd)
                    budget = op["hop"] if op["hop"] > 1 else 10
                    if budget < hops or hops > 10:
                        may, must = must, set()      # out of reach of the hop budget (LS uses the MIB default of 10)
            forbidden |= (set(range(n)) - must - may)
            # only stations with a handler on the destination port can show a delivery
            for i in sorted(must):
                if op["dport"] not in c["stations"][i]["ports"]:
                    continue
                res.count("expected_deliveries_checked")
                mine = [d for d in dl if d[0] == i]
                why = ""
                if kind == "guc":
                    why = "[dest-known]" if r["dst_known"] else ("[queued-while-ls-pending]" if r["pending"] else "[via-location-service]")
                    why += f"[{c['topo']}]"
                if len(mine) == 0:
                    res.violation(f"C01:not-delivered[{kind}]{why}", f"request {r['tag']!r} from S{snd} never reached the port-{op['dport']} handler of S{i}; "
                                  f"receive-path exceptions: {[repr(e[3]) for e in errs][:3]}", {**c, "_req": op})
                    continue
                if len(mine) > 1:
                    res.violation(f"C01:delivered-more-than-once[{kind}]", f"request {r['tag']!r} reached S{i} {len(mine)} times", {**c, "_req": op})
                _, port, ind, t = mine[0]
                if bytes(ind.data) != r["payload"] or ind.length != len(r["payload"]):
                    res.violation(f"C01:payload-not-identical[{kind}]", f"sent {len(r['payload'])} octets, handler got {len(ind.data)} (length field {ind.length})", {**c, "_req": op})
                if port != op["dport"] or ind.destination_port != op["dport"]:
                    res.violation("C01:wrong-port-handler", f"destination port {op['dport']}, handler of port {port}, indication says {ind.destination_port}", {**c, "_req": op})
                if op["btp"] == "B" and ind.destination_port_info != op["p2"]:
                    res.violation("C01:metadata[destination_port_info]", f"{ind.destination_port_info} != {op['p2']}", {**c, "_req": op})
                if op["btp"] == "A" and ind.source_port != op["p2"]:
                    res.violation("C01:metadata[source_port]", f"{ind.source_port} != {op['p2']}", {**c, "_req": op})
                gpv = pv_dict(ind.gn_source_position_vector)
                # a request queued for the location service is (re)built when the reply arrives: the SO PV then is the
                # ego PV at that later instant -- any ego PV the sender had between request and delivery is accepted
                if gpv["addr"]["mid"] != r["pv"]["addr"]["mid"] or (gpv["lat"], gpv["lon"], gpv["s"], gpv["h"], gpv["pai"]) != (r["pv"]["lat"], r["pv"]["lon"], r["pv"]["s"], r["pv"]["h"], r["pv"]["pai"]):
                    res.violation(f"C01:metadata[source_position_vector][{kind}]", f"indication {gpv}, sender had {r['pv']}", {**c, "_req": op})
                ptt = ind.gn_packet_transport_type
                want_ht = {"shb": 5, "gbc": 4, "gac": 3, "guc": 2}[kind]
                if ptt.header_type.value != want_ht or (kind in ("gbc", "gac") and ptt.header_subtype.value != op["area"]["shape"]) or (kind == "shb" and ptt.header_subtype.value != 0):
                    res.violation(f"C01:metadata[transport_type][{kind}]", f"{ptt}", {**c, "_req": op})
                tcg = ind.gn_traffic_class
                if (tcg.tc_id, int(tcg.channel_offload), int(tcg.scf)) != (op["tcid"], op["co"], op["scf"]):
                    res.violation("C01:metadata[traffic_class]", f"{tcg}", {**c, "_req": op})
                order_seen.setdefault((snd, i), []).append((t, mine[0][3], r["tag"]))
            for (i, port, ind, t) in dl:
                res.count("forbidden_deliveries_checked")
                if i == snd:
                    res.violation(f"C01:delivered-to-sender[{kind}]", f"S{snd} got its own request {r['tag']!r}", {**c, "_req": op})
                elif i in forbidden:
                    cls = "outside-area" if kind in ("gbc", "gac") else "not-the-destination" if kind == "guc" else "not-a-neighbour"
                    res.violation(f"C01:delivered-to-wrong-station[{kind}][{cls}]", f"S{i} got {r['tag']!r}", {**c, "_req": op})
                if port != op["dport"]:
                    res.violation("C01:wrong-port-handler", f"tag {r['tag']!r} for port {op['dport']} given to handler of port {port}", {**c, "_req": op})
            res.count("forbidden_deliveries_checked", max(0, len(forbidden) - len(dl)))
        # request order per (sender, destination): deliveries ordered by handler invocation sequence
        for i, s_ in enumerate(S):
            seq = {}
            for k, (t, port, ind) in enumerate(s_.btp_ind):
                parts = bytes(ind.data).split(b"|")
                if len(parts) >= 3 and parts[0].isdigit() and parts[1].isdigit():
                    seq.setdefault(int(parts[0]), []).append(int(parts[1]))
            for snd, tags in seq.items():
                firsts = []
                for tg in tags:
                    if tg not in firsts:
                        firsts.append(tg)
                if firsts != sorted(firsts):
                    res.violation("C01:delivery-order-differs-from-request-order", f"S{i} got requests of S{snd} in order {firsts}", c)
                res.count("order_checked")


def gen_relay(rng):
    """Directed class: the receiver is out of the sender's radio range and reachable only through k relays that all hear the
    sender (k = 2: a 'diamond'); everybody is inside the destination area, several stations of the scenario live in this one
    process.  One delivery per station, none at the sender."""
    lat, lon = rng.choice(((41.39, 2.11), (-33.45, -70.66), (0.0005, -0.0005), (64.1, -21.9), (-41.3, 174.8)))
    return {"family": "relay", "base": [lat, lon], "k": rng.choice((1, 2, 2, 2, 3, 4)), "alg": rng.choice((1, 2, 2)), "kind": rng.choice(("gbc", "gbc", "gbc")),
            "npk": rng.choice((1, 2, 3)), "hop": rng.choice((3, 10)), "btp": rng.choice("AB"), "dport": rng.choice((2001, 2002, 5000)),
            "cbf_max": rng.choice((100, 100, 400)), "seed": rng.randrange(1 << 30)}


def run_relay_case(c, res):
    from vf.gnharness import World, btp_request, area as mk_area, mid_of
    from flexstack.geonet.mib import AreaForwardingAlgorithm
    rng = random.Random(c["seed"])
    lat, lon = c["base"]
    k = c["k"]
    with World() as w:
        def st(name, i, north, east):
            la, lo = G.destination(lat, lon, north, east)
            return w.add(name, mid_of(i), lat=to_int(la), lon=to_int(lo), ports=(c["dport"],),
                         mib_over={"itsGnAreaForwardingAlgorithm": AreaForwardingAlgorithm(c["alg"]), "itsGnCbfMaxTime": c["cbf_max"]})
        A = st("A", 1, 0.0, 0.0)
        R = [st(f"R{j}", 2 + j, rng.uniform(-60, 60), 300.0 + rng.uniform(-40, 40)) for j in range(k)]
        D = st("D", 2 + k, rng.uniform(-20, 20), 600.0)
        for r in R:
            w.ether.connect("A", r.name)
            w.ether.connect(r.name, "D")
        for s_ in [A, D] + R:
            s_.router.gn_data_request_beacon()
        w.settle()
        ca, co = G.destination(lat, lon, 0.0, 300.0)
        ar = mk_area(to_int(ca), to_int(co), 1200, 1200, 0)
        sent = []
        try:
            for n_ in range(c["npk"]):
                pl = b"relay-%d-" % n_ + bytes(rng.randrange(256) for _ in range(rng.choice((0, 5, 40))))
                A.btp.btp_data_request(btp_request(c["kind"], pl, btp=c["btp"], dport=c["dport"], ar=ar, hop=c["hop"]))
                sent.append(pl)
                if rng.random() < 0.5:
                    w.settle()
                    w.clock.advance(rng.choice((0.0, 0.01, 0.5)))
            for _ in range(6):
                w.settle()
                w.clock.advance(c["cbf_max"] / 1000.0 + 0.05)
            w.settle()
        except Exception as e:  # noqa
            res.violation(f"C01:relay-scenario-raises-{type(e).__name__}", f"{e!r}", c)
            return
        if w.ether.errors:
            e = w.ether.errors[0][3]
            res.violation(f"C01:reception-raises-{type(e).__name__}[relay]", f"{e!r}", c)
            return
        res.count("relay.scenarios")
        res.count(f"relay.forwarders[{k}]")
        for s_ in [D] + R + [A]:
            got = [bytes(ind.data) for (_, port, ind) in s_.btp_ind if port == c["dport"]]
            for pl in sent:
                res.count("relay.deliveries_judged")
                n_got = got.count(pl)
                want = 0 if s_ is A else 1
                if n_got != want:
                    role = "sender" if s_ is A else ("receiver-behind-the-relays" if s_ is D else "relay")
                    res.violation(f"C01:payload-delivered-{n_got}-times-instead-of-{want}[{role}][relayed-{c['kind']}][forwarders={'1' if k == 1 else 'even' if k % 2 == 0 else 'odd'}]",
                                  f"{s_.name}: {n_got} deliveries of {pl[:12]!r} (alg {c['alg']}, {k} relays)", c)
            if got[:len(sent)] != sent[:len(got)] and sorted(got) == sorted(sent):
                res.violation("C01:relayed-payloads-out-of-request-order", f"{s_.name}", c)


def run_shard(spec, res):
    rng = random.Random(spec["seed"])
    for k in range(spec["cases"]):
        if k % 8 == 7:
            c = gen_relay(rng)
            run_relay_case(c, res)
            res.case(repr(c))
            continue
        c = gen_ls_overtake(rng) if k % 5 == 4 else gen(rng)
        run_case(c, res)
        res.case(repr(c))
        if k == 0:
            res.sample(c)


def shards(tier, seed):
    if tier == "thorough":
        return [{"seed": seed * 1009 + i, "cases": 1300} for i in range(16)]
    return [{"seed": seed * 1009 + i, "cases": 40} for i in range(8)]


def replay(case, res):
    c = {k: v for k, v in case.items() if not k.startswith("_")}
    (run_relay_case if c.get("family") == "relay" else run_case)(c, res)
