"""C16 -- LDM operations under controlled thread schedules: histories checked for linearizability.

A real LDM (Dictionary back-end; reactive or threaded service; reactive or threaded maintenance, the background loops of
the threaded variants replaced by explicit 'attend' / 'gc' operations of the actors) is built with scheduler-aware locks.
2-4 actors issue 1-4 IF.LDM.3 / IF.LDM.4 calls, maintenance passes and attendance passes each; the controller chooses the
interleaving of the bytecode instructions of the LDM modules (vf/sched.py, vf/explore.py).  Every call is recorded at the
interface boundary (call event, return event, response) with one global event counter; subscription callbacks and the
removals done by maintenance are recorded as they happen.  After each execution:

  object   per data object (P-compositional): add / update / delete / maintenance removal / observations by queries and
           notifications / final store content must be linearizable against a single-cell model
           (unborn -> present(version) -> absent); maintenance may remove only expired objects
  ids      identifiers handed out by successful adds are distinct; one stored record per accepted add
  provider per provider id: register / deregister(ack) / the registered-or-not answer implied by each add: linearizable
  consumer per consumer id, jointly with its subscriptions: register / deregister(ack, ends its subscriptions) /
           query accepted-or-refused / subscribe / unsubscribe(ack) / the final registry and the subscriptions notified by
           a final quiescent attendance pass: linearizable
  notify   no notification for a subscription in a pass that started after its removal completed (resurrected);
           an attendance pass that started after subscribe returned, with no removal begun before it ended, notifies it (lost)
  run      no operation raised, no deadlock
"""
from __future__ import annotations

import random
import sys
import threading
import types

from vf import sched as S
from vf import linz

PROPERTY = "C16"
LEVEL = "exploration"
RULE = ("one case = one executed schedule of one scenario; distinct = distinct sequence of context switches (actor, instruction) per scenario; "
        "non-trivial = at least one preemption was injected")
ASSUMPTIONS = ["one actor runs at a time (sequentially consistent interleavings of bytecode instructions)",
               "the 1 s / 0.5 s background loops of the threaded variants are represented by explicit maintenance / attendance operations",
               "registration checks are linearised per registry: an add is judged against 'registered at some instant during the call'",
               "objects are placed where the (inverted, see C12) area garbage collection leaves them alone; only expiry removes objects"]
REQUIRED_COUNTERS = ["schedules", "preempted_schedules", "object.histories_checked", "object.concurrent_histories", "provider.histories_checked",
                     "consumer.histories_checked", "notify.callbacks_judged", "notify.passes_judged", "ids.adds_judged", "lock_waits", "notify.interval_subscriptions_judged", "executions_with_a_storage_fault_on_remove"]

_INS = None
CAM = 2


def instrument():
    global _INS
    if _INS is None:
        from flexstack.facilities.local_dynamic_map import (dictionary_database, ldm_service, ldm_service_reactive, ldm_service_threads,
                                                            ldm_maintenance, ldm_maintenance_reactive, ldm_maintenance_thread, if_ldm_3, if_ldm_4)
        _INS = S.Instrument([dictionary_database, ldm_service, ldm_service_reactive, ldm_service_threads, ldm_maintenance,
                             ldm_maintenance_reactive, ldm_maintenance_thread, if_ldm_3, if_ldm_4])
    return _INS


class FakeThread:
    """The background loops are not started; their bodies are actor operations."""

    def __init__(self, *a, **k):
        pass

    def start(self):
        pass

    def join(self, timeout=None):
        pass

    def is_alive(self):
        return False


# ----------------------------------------------------------------------------------------------- scenarios
def gen_scenario(rng, conflict=None):
    n_act = rng.choice((2, 2, 3, 3, 4))
    pre = {"live": rng.choice((1, 2, 2, 3)), "doomed": rng.choice((0, 1, 1, 2)), "subs": rng.choice((0, 1, 2)),
           "prov5": rng.random() < 0.3, "cons3": rng.random() < 0.5}
    focus = rng.choice(("store", "store", "registry", "subs", "mixed", "mixed"))
    pools = {
        "store": ["add", "add_doomed", "update", "update", "delete", "delete", "query", "query", "gc"],
        "registry": ["add", "add5", "reg_p5", "dereg_p5", "dereg_p2", "reg_p2", "query3", "reg_c3", "dereg_c3", "query"],
        "subs": ["subscribe", "subscribe3", "unsub", "unsub", "dereg_c3", "reg_c3", "attend", "attend", "add", "dereg_c2", "reg_c2"],
        "mixed": ["add", "add_doomed", "update", "delete", "query", "gc", "attend", "subscribe", "unsub", "dereg_c3", "reg_c3", "add5", "reg_p5", "dereg_p5"],
    }
    pool = pools[focus]
    actors = []
    nobj = pre["live"] + pre["doomed"]
    for a in range(n_act):
        ops = []
        for _ in range(rng.choice((1, 2, 2, 3, 4))):
            k = rng.choice(pool)
            op = {"op": k}
            if k in ("update", "delete"):
                # targets: pre-objects other than the sentinel (index 0), or an object added earlier by the same actor
                own = [i for i, o in enumerate(ops) if o["op"] in ("add", "add_doomed")]
                if own and rng.random() < 0.3:
                    op["own"] = rng.choice(own)
                elif nobj > 1:
                    op["pre"] = rng.randrange(1, nobj)
                else:
                    op = {"op": "query"}
            if k == "unsub":
                own = [i for i, o in enumerate(ops) if o["op"] in ("subscribe", "subscribe3")]
                if own and rng.random() < 0.4:
                    op["own"] = rng.choice(own)
                elif pre["subs"]:
                    op["pre"] = rng.randrange(pre["subs"])
                else:
                    op = {"op": "attend"}
            ops.append(op)
        actors.append(ops)
    if conflict is not None:
        # directed class: the first operations of two actors conflict on one object / registration / subscription, so that a
        # single preemption inside one of them already interleaves the two critical sequences
        pre["doomed"] = max(pre["doomed"], 1)
        pre["live"] = max(pre["live"], 2)
        pre["subs"] = max(pre["subs"], 1)
        pre["cons3"] = pre["prov5"] = True
        live1, doomed0 = 1, pre["live"]
        pairs = [
            ({"op": "update", "pre": live1}, {"op": "delete", "pre": live1}),
            ({"op": "delete", "pre": live1}, {"op": "delete", "pre": live1}),
            ({"op": "update", "pre": doomed0}, {"op": "gc"}),
            ({"op": "delete", "pre": doomed0}, {"op": "gc"}),
            ({"op": "update", "pre": live1}, {"op": "update", "pre": live1}),
            ({"op": "dereg_c3"}, {"op": "subscribe3"}),
            ({"op": "dereg_c3"}, {"op": "dereg_c3"}),
            ({"op": "unsub", "pre": 0}, {"op": "unsub", "pre": 0}),
            ({"op": "unsub", "pre": 0}, {"op": "attend"}),
            ({"op": "dereg_p5"}, {"op": "add5"}),
            ({"op": "dereg_p5"}, {"op": "dereg_p5"}),
            ({"op": "add"}, {"op": "add"}),
            ({"op": "add"}, {"op": "query"}),
            ({"op": "delete", "pre": live1}, {"op": "query"}),
            # multi-step conflicts: an attendance pass (which works on a snapshot and cleans up at its end) against a consumer
            # that deregisters, registers again and subscribes anew while the pass is under way
            ([{"op": "attend"}, {"_interval_subs": True}], [{"op": "attend"}]),
            # a deregistration (registration and ALL subscriptions of the consumer) against unsubscriptions of two of them
            # (the consumer registers again at once: its unsubscriptions are accepted while the deregistration is still under way)
            ([{"op": "dereg_c2"}], [{"op": "reg_c2"}, {"op": "unsub", "pre": 0}, {"op": "unsub", "pre": 1}]),
            ([{"op": "attend"}], [{"op": "dereg_c2"}, {"op": "reg_c2"}, {"op": "subscribe"}]),
            ([{"op": "attend"}, {"op": "attend"}], [{"op": "dereg_c2"}, {"op": "reg_c2"}, {"op": "subscribe"}, {"op": "add"}]),
            # fault injection: the storage back-end fails the first removal (inside a provider's delete / inside garbage collection)
            ({"op": "delete", "pre": live1, "_fault": 1}, {"op": "query"}),
            ({"op": "gc", "_fault": 1}, {"op": "add"}),
        ]
        pair = pairs[conflict % len(pairs)]
        fault_n = next((o["_fault"] for o in pair if isinstance(o, dict) and "_fault" in o), None)
        if fault_n:
            pair = tuple({k_: v_ for k_, v_ in o.items() if k_ != "_fault"} for o in pair)
        if rng.random() < 0.5:
            pair = pair[::-1]
        if isinstance(pair[0], list):
            if any("_interval_subs" in o for o in pair[0] + pair[1]):
                pre["interval_subs"] = True
            pre["subs"] = 2
            actors[0], actors[1] = [dict(o) for o in pair[0] if "op" in o], [dict(o) for o in pair[1] if "op" in o]
            actors[2:] = [[{"op": rng.choice(("add", "query", "attend"))}] for _ in actors[2:3]]
        else:
            actors[0] = [dict(pair[0])] + [o for o in actors[0][:2] if "own" not in o]
            actors[1] = [dict(pair[1])] + [o for o in actors[1][:2] if "own" not in o]
        for a in actors:
            for o in a:
                if "pre" in o and o["op"] in ("update", "delete"):
                    o["pre"] = min(o["pre"], pre["live"] + pre["doomed"] - 1)
                if "pre" in o and o["op"] == "unsub":
                    o["pre"] = min(o["pre"], pre["subs"] - 1)
        focus = "conflict"
    sc = {"service": rng.choice(("Reactive", "Threads")), "maint": rng.choice(("Reactive", "Thread")), "pre": pre, "actors": actors,
          "adv": rng.random() < 0.5, "focus": focus}
    if conflict is None and rng.random() < 0.2 and any(o["op"] in ("delete", "gc") for a in actors for o in a):
        sc["storage_fault_on_remove"] = rng.choice((1, 1, 2))
    if conflict is not None and fault_n:
        sc["storage_fault_on_remove"] = fault_n
        sc["maint"] = rng.choice(("Thread", "Thread", "Reactive"))
    return sc


class Ctx:
    pass


def build(spec):
    from flexstack.facilities.local_dynamic_map import (dictionary_database as DD, ldm_service as LS, ldm_service_reactive as LSR,
                                                        ldm_service_threads as LST, ldm_maintenance_reactive as LMR, ldm_maintenance_thread as LMT)
    from flexstack.facilities.local_dynamic_map.ldm_facility import LDMFacility
    from flexstack.facilities.local_dynamic_map.ldm_classes import (
        AccessPermission, AddDataProviderReq, DeleteDataProviderReq, DeregisterDataConsumerReq, DeregisterDataProviderReq, Location,
        RegisterDataConsumerReq, RegisterDataProviderReq, RequestDataObjectsReq, SubscribeDataobjectsReq, TimestampIts, TimeValidity,
        UpdateDataProviderReq, UnsubscribeDataConsumerReq)
    from vf.vclock import VClock
    from vf import ldmharness as H
    instrument()
    ctx = Ctx()
    ctx.spec = spec
    clock = VClock().install()
    clock.install_ldm()
    shim = types.SimpleNamespace(RLock=S.RLock, Lock=S.Lock, Thread=FakeThread, Event=threading.Event, get_ident=threading.get_ident)
    saved = [(DD, "RLock", DD.RLock)]
    DD.RLock = S.RLock
    for mod in (LS, LSR, LST, LMR, LMT):
        saved.append((mod, "threading", mod.threading))
        mod.threading = shim

    def teardown():
        for mod, name, val in saved:
            setattr(mod, name, val)
        clock.uninstall()
    ctx.teardown = teardown
    try:
        database = DD.DictionaryDataBase()
        loc = Location.initializer(latitude=H.LDM_LAT, longitude=H.LDM_LON, altitude_value=H.LDM_ALT)
        maint = (LMR.LDMMaintenanceReactive if spec["maint"] == "Reactive" else LMT.LDMMaintenanceThread)(loc, database)
        serv = (LSR.LDMServiceReactive if spec["service"] == "Reactive" else LST.LDMServiceThreads)(maint)
        fac = LDMFacility(maint, serv)
        i3, i4 = fac.if_ldm_3, fac.if_ldm_4
        ctx.fac, ctx.db, ctx.maint, ctx.serv = fac, database, maint, serv
        ctx.ev = [0]
        ctx.ops, ctx.cbs, ctx.removes = [], [], []
        ctx.cur = {}           # thread ident -> op being executed
        now_its = H.its_now(clock)
        rng = random.Random(12345)
        ctx.objects = {}       # sid -> dict(id, doomed, v0, pre)
        ctx.subs = {}          # key -> dict(aid, sid, pre)
        marker = [0]

        def tick():
            ctx.ev[0] += 1
            return ctx.ev[0]

        def cam_msg(sid):
            marker[0] += 1
            m = H.cam(rng, station=sid, with_lf=False, with_special=False)
            m["cam"]["generationDeltaTime"] = marker[0]
            return m, marker[0]

        def add_req(aid, sid, doomed):
            msg, ver = cam_msg(sid)
            ts = now_its - (20000 if doomed else 100)
            req = AddDataProviderReq(aid, TimestampIts(ts), H.location(H.LDM_LAT + 20000 + 13 * sid, H.LDM_LON + 20000), msg,
                                     TimeValidity(1 if doomed else 5000))
            return req, ver

        def record(kind, fn, **kw):
            op = {"kind": kind, "call": tick(), "ret": None, "resp": None, **kw}
            a = S._current.by_ident.get(threading.get_ident()) if S._current else None
            op["actor"] = a.name if a else "main"
            ctx.ops.append(op)
            ident = threading.get_ident()
            outer = ctx.cur.get(ident)
            ctx.cur[ident] = op
            try:
                op["resp"] = fn()
            except BaseException as e:
                op["exc"] = repr(e)
                raise
            finally:
                ctx.cur[ident] = outer
                op["ret"] = tick()
            return op

        orig_remove = database.remove

        def logged_remove(data_object):
            t0 = tick()
            enc = ctx.cur.get(threading.get_ident())
            ctx.remove_calls = getattr(ctx, "remove_calls", 0) + 1
            if spec.get("storage_fault_on_remove") == ctx.remove_calls:
                # fault injection: the storage back-end fails this one removal (damaged record, concurrent writer of a file store)
                ctx.storage_faults = getattr(ctx, "storage_faults", 0) + 1
                if enc is not None:
                    enc["faulted"] = True
                raise KeyError("storage error (injected)")
            ok = orig_remove(data_object)
            try:
                sid, ver = data_object["dataObject"]["header"]["stationId"], data_object["dataObject"]["cam"]["generationDeltaTime"]
            except Exception:  # noqa
                sid, ver = None, None
            ctx.removes.append({"call": t0, "ret": tick(), "sid": sid, "ver": ver, "ok": bool(ok), "by": enc["kind"] if enc else None,
                                "by_op": enc})
            return ok
        database.remove = logged_remove

        # the instant at which the service starts to decide about one notification (process_notifications takes the
        # service lock and looks the subscription up): a notification decided after a removal had completed is late
        orig_pn = serv.process_notifications
        pn_start = {}

        def logged_pn(subscription, result):
            ident = threading.get_ident()
            pn_start[ident] = tick()
            try:
                return orig_pn(subscription, result)
            finally:
                pn_start.pop(ident, None)
        serv.process_notifications = logged_pn

        def callback_for(key):
            def cb(resp):
                enc = ctx.cur.get(threading.get_ident())
                objs = []
                for rec in resp.data_objects:
                    d = rec["dataObject"]
                    objs.append((d["header"]["stationId"], d["cam"]["generationDeltaTime"]))
                ctx.cbs.append({"key": key, "t": tick(), "objs": objs, "op": enc, "pn": pn_start.get(threading.get_ident())})
            return cb

        # ---- initial state (sequential, main thread)
        i3.register_data_provider(RegisterDataProviderReq(2, (AccessPermission(2),), TimeValidity(1000)))
        if spec["pre"]["prov5"]:
            i3.register_data_provider(RegisterDataProviderReq(5, (AccessPermission(5),), TimeValidity(1000)))
        i4.register_data_consumer(RegisterDataConsumerReq(2, (AccessPermission(2),), H.area()))
        if spec["pre"]["cons3"]:
            i4.register_data_consumer(RegisterDataConsumerReq(3, (AccessPermission(3),), H.area()))
        ctx.init_prov = {2: True, 5: bool(spec["pre"]["prov5"])}
        ctx.init_cons = {2: True, 3: bool(spec["pre"]["cons3"])}
        sid_next = [100]
        for i in range(spec["pre"]["live"] + spec["pre"]["doomed"]):
            doomed = i >= spec["pre"]["live"]
            sid = sid_next[0]
            sid_next[0] += 1
            req, ver = add_req(2, sid, doomed)
            r = i3.add_provider_data(req)
            assert r.data_object_id >= 0
            ctx.objects[sid] = {"id": r.data_object_id, "doomed": doomed, "v0": ver, "pre": True}
        ctx.pre_sids = list(ctx.objects)
        sub_next = [0]

        def sub_req(aid, interval=False):
            sub_next[0] += 1
            if interval:
                return SubscribeDataobjectsReq(application_id=aid, data_object_type=(CAM,), priority=sub_next[0], filter=None, notify_time=TimestampIts(1000),
                                               multiplicity=None, order=None), f"s{sub_next[0]}"
            # distinct requests (the subscription id is a hash of the request): priority differs
            return SubscribeDataobjectsReq(application_id=aid, data_object_type=(CAM,), priority=sub_next[0], filter=None, notify_time=None,
                                           multiplicity=None, order=None), f"s{sub_next[0]}"
        ctx.pre_subs = []
        for i in range(spec["pre"]["subs"]):
            req, key = sub_req(2, interval=bool(spec["pre"].get("interval_subs")))
            r = i4.subscribe_data_consumer(req, callback_for(key))
            assert int(r.result) == 0, r
            ctx.subs[key] = {"aid": 2, "sub_id": r.subscription_id, "pre": True, "interval": bool(spec["pre"].get("interval_subs"))}
            ctx.pre_subs.append(key)
        if spec["pre"].get("interval_subs"):
            # subscriptions with a 1 s notification interval: one sequential pass starts their cadence, then more than the
            # interval passes -- in the concurrent part every such subscription is due exactly once
            serv.attend_subscriptions()
            clock.advance(2.0)
            serv.attend_subscriptions()
            del ctx.cbs[:]
            clock.advance(2.0)
        elif spec["adv"]:
            clock.advance(2.0)      # the next add of a reactive variant runs a maintenance / attendance pass inside
        ctx.clock = clock

        # ---- actor programs
        def program(ops):
            own_objs, own_subs = {}, {}
            steps = []
            for idx, op in enumerate(ops):
                k = op["op"]
                if k in ("add", "add_doomed", "add5"):
                    aid = 5 if k == "add5" else 2
                    sid = sid_next[0]
                    sid_next[0] += 1
                    req, ver = add_req(aid, sid, k == "add_doomed")
                    ctx.objects[sid] = {"id": None, "doomed": k == "add_doomed", "v0": ver, "pre": False}

                    def f(req=req, sid=sid, aid=aid, ver=ver, idx=idx):
                        o = record("add", lambda: i3.add_provider_data(req), sid=sid, aid=aid, ver=ver)
                        rid = o["resp"].data_object_id
                        o["ok"] = rid >= 0
                        o["id"] = rid
                        if rid >= 0:
                            ctx.objects[sid]["id"] = rid
                            own_objs[idx] = sid
                    steps.append(f)
                elif k in ("update", "delete"):
                    def f(op=op, k=k):
                        if "own" in op:
                            sid = own_objs.get(op["own"])
                            if sid is None:
                                return
                        else:
                            sid = ctx.pre_sids[op["pre"]]
                        oid = ctx.objects[sid]["id"]
                        if k == "update":
                            msg, ver = cam_msg(sid)
                            req = UpdateDataProviderReq(2, oid, TimestampIts(now_its), H.location(H.LDM_LAT + 5000, H.LDM_LON + 5000), msg, TimeValidity(5))
                            o = record("upd", lambda: i3.update_provider_data(req), sid=sid, ver=ver)
                            o["res"] = int(o["resp"].result)
                        else:
                            req = DeleteDataProviderReq(2, oid, TimestampIts(now_its))
                            o = record("del", lambda: i3.delete_provider_data(req), sid=sid)
                            o["res"] = int(o["resp"].result)
                    steps.append(f)
                elif k in ("query", "query3"):
                    aid = 3 if k == "query3" else 2

                    def f(aid=aid):
                        req = RequestDataObjectsReq(aid, (CAM,), None, None, None)
                        o = record("query", lambda: i4.request_data_objects(req), aid=aid)
                        o["ok"] = int(o["resp"].result) == 0
                        o["objs"] = [(r["dataObject"]["header"]["stationId"], r["dataObject"]["cam"]["generationDeltaTime"]) for r in o["resp"].data_objects]
                    steps.append(f)
                elif k in ("reg_p5", "reg_p2", "dereg_p5", "dereg_p2"):
                    aid = int(k[-1])
                    if k.startswith("reg"):
                        def f(aid=aid):
                            o = record("reg_p", lambda: i3.register_data_provider(RegisterDataProviderReq(aid, (AccessPermission(aid),), TimeValidity(1000))), aid=aid)
                            o["ok"] = int(o["resp"].result) == 0
                    else:
                        def f(aid=aid):
                            o = record("dereg_p", lambda: i3.deregister_data_provider(DeregisterDataProviderReq(aid)), aid=aid)
                            o["ack"] = int(o["resp"].result)
                    steps.append(f)
                elif k in ("reg_c3", "reg_c2", "dereg_c3", "dereg_c2"):
                    aid = int(k[-1])
                    if k.startswith("reg"):
                        def f(aid=aid):
                            o = record("reg_c", lambda: i4.register_data_consumer(RegisterDataConsumerReq(aid, (AccessPermission(aid),), H.area())), aid=aid)
                            o["ok"] = int(o["resp"].result) == 0
                    else:
                        def f(aid=aid):
                            o = record("dereg_c", lambda: i4.deregister_data_consumer(DeregisterDataConsumerReq(aid)), aid=aid)
                            o["ack"] = int(o["resp"].ack)
                    steps.append(f)
                elif k in ("subscribe", "subscribe3"):
                    aid = 3 if k == "subscribe3" else 2
                    req, key = sub_req(aid)
                    ctx.subs[key] = {"aid": aid, "sub_id": None, "pre": False}

                    def f(req=req, key=key, aid=aid, idx=idx):
                        o = record("sub", lambda: i4.subscribe_data_consumer(req, callback_for(key)), aid=aid, key=key)
                        o["ok"] = int(o["resp"].result) == 0
                        if o["ok"]:
                            ctx.subs[key]["sub_id"] = o["resp"].subscription_id
                            own_subs[idx] = key
                    steps.append(f)
                elif k == "unsub":
                    def f(op=op):
                        if "own" in op:
                            key = own_subs.get(op["own"])
                            if key is None:
                                return
                        else:
                            key = ctx.pre_subs[op["pre"]]
                        sb = ctx.subs[key]
                        o = record("unsub", lambda: i4.unsubscribe_data_consumer(UnsubscribeDataConsumerReq(sb["aid"], sb["sub_id"])), aid=sb["aid"], key=key)
                        o["ok"] = int(o["resp"].result) == 0
                    steps.append(f)
                elif k == "gc":
                    steps.append(lambda: record("gc", maint.collect_trash))
                elif k == "attend":
                    steps.append(lambda: record("attend", serv.attend_subscriptions))
                else:
                    raise ValueError(k)

            def run():
                for f in steps:
                    f()
            return run
        ctx.actor_fns = [program(ops) for ops in spec["actors"]]
        ctx.sub_req = sub_req
        ctx.record = record
    except BaseException:
        teardown()
        raise
    return ctx


def execute(spec, plan=(), policy=None, log_from=None, instr_points=True):
    ctx = build(spec)
    try:
        s = S.Scheduler(instr_points=instr_points)
        ctx.sched = s
        for i, fn in enumerate(ctx.actor_fns):
            s.add_actor(f"a{i}", fn)
        ctx.out = s.run(plan=plan, policy=policy, log_from=log_from)
        ctx.end = ctx.ev[0] + 1
        # quiescent final observation (main thread): registries, store, and who is notified by one more attendance pass
        ctx.final_store = dict(ctx.db.database)
        ctx.final_prov = set(ctx.serv.data_provider_its_aid)
        ctx.final_cons = set(ctx.serv.data_consumer_its_aid)
        n0 = len(ctx.cbs)
        if not ctx.out["deadlock"] and not ctx.out["timeout"]:
            try:
                if spec["pre"].get("interval_subs"):
                    ctx.clock.advance(2.0)       # every subscription that still exists is due again in the final pass
                ctx.serv.attend_subscriptions()
            except Exception as e:  # noqa
                ctx.out["exceptions"].append(("final-attend", e))
        ctx.final_notified = {c["key"] for c in ctx.cbs[n0:]}
        ctx.cbs_run = ctx.cbs[:n0]
    finally:
        ctx.teardown()
    return ctx


# ------------------------------------------------------------------------------------------------ monitors
def obj_step(doomed):
    def step(st, o):
        k = o["k"]
        if k == "add":
            if not o["ok"]:
                return [st]
            return [("p", o["v"])] if st == ("u",) else []
        if k == "upd":
            if o["res"] == 0:
                return [("p", o["v"])] if st[0] == "p" else []
            return [st] if st[0] != "p" else []
        if k == "del":
            if o["res"] == 0:
                return [("a",)] if st[0] == "p" else []
            if o.get("faulted"):
                return [st]           # the store refused the removal: FAILED with the object left in place is the right answer
            return [st] if st[0] != "p" else []
        if k == "gc":
            return [("a",)] if st[0] == "p" else []
        if k == "obs":
            if o["v"] is None:
                return [st] if st[0] != "p" else []
            return [st] if st == ("p", o["v"]) else []
        raise ValueError(k)
    return step


def reg_step(st, o):
    k = o["k"]
    if k == "reg":
        return [True] if o["ok"] else [st]
    if k == "dereg":
        if o["ack"] == 0:
            return [False] if st else []
        return [st] if not st else []
    if k == "read":
        return [st] if st == o["v"] else []
    raise ValueError(k)


def cons_step(st, o):
    reg, subs = st
    k = o["k"]
    if k == "reg":
        return [(True, subs)] if o["ok"] else [st]
    if k == "dereg":
        if o["ack"] == 0:
            return [(False, frozenset())] if reg else []
        return [st] if not reg else []
    if k == "read":
        return [st] if reg == o["v"] else []
    if k == "sub":
        if o["ok"]:
            return [(reg, subs | {o["key"]})] if reg else []
        return [st] if not reg else []
    if k == "unsub":
        if o["ok"]:
            return [(reg, subs - {o["key"]})] if (reg and o["key"] in subs) else []
        return [st] if (not reg or o["key"] not in subs) else []
    if k == "fin":
        if reg != o["reg"]:
            return []
        if reg and subs != o["notified"]:
            return []
        if not reg and o["notified"]:
            return []
        return [st]
    raise ValueError(k)


def overlaps(ops):
    for i, a in enumerate(ops):
        for b in ops[i + 1:]:
            if a["call"] < b["ret"] and b["call"] < a["ret"]:
                return True
    return False


def brief(ops):
    return [{k: v for k, v in o.items() if k in ("k", "v", "ok", "res", "ack", "key", "call", "ret", "reg", "notified", "by")} for o in ops]


def judge(ctx, res):
    out, spec = ctx.out, ctx.spec
    if out.get("timeout"):
        return None
    if getattr(ctx, "storage_faults", 0):
        res.count("executions_with_a_storage_fault_on_remove")
    bad = []
    if out["deadlock"]:
        bad.append(("deadlock", f"all live actors blocked: {out.get('blocked')}"))
    for name, e in out["exceptions"]:
        bad.append((f"operation-raised[{type(e).__name__}]", f"{name}: {e!r}"))
    if out["deadlock"] or out["exceptions"]:
        return bad
    END = ctx.end
    ops = ctx.ops
    # ---- ids
    ids = [o["id"] for o in ops if o["kind"] == "add" and o["ok"]] + [v["id"] for v in ctx.objects.values() if v["pre"]]
    res.count("ids.adds_judged", len(ids))
    if len(set(ids)) != len(ids):
        bad.append(("identifier-reused", f"{sorted(ids)}"))
    per_sid = {}
    for rid, rec in ctx.final_store.items():
        sid = rec["dataObject"]["header"]["stationId"]
        per_sid.setdefault(sid, []).append(rid)
    for sid, rids in per_sid.items():
        if len(rids) > 1:
            bad.append(("object-duplicated", f"object {sid} stored under ids {rids}"))
        elif sid in ctx.objects and ctx.objects[sid]["id"] is not None and rids[0] != ctx.objects[sid]["id"]:
            bad.append(("object-stored-under-another-id", f"object {sid}: add answered {ctx.objects[sid]['id']}, stored under {rids[0]}"))
    # ---- per object
    observers = []          # (call, ret, {sid: ver})
    for o in ops:
        if o["kind"] == "query" and o.get("ok") and o["ret"] is not None:
            observers.append((o["call"], o["ret"], dict(o["objs"]), "query"))
    for c in ctx.cbs_run:
        enc = c["op"]
        if enc is not None and enc["ret"] is not None:
            observers.append((enc["call"], enc["ret"], dict(c["objs"]), "notification"))
    for sid, info in ctx.objects.items():
        h = []
        for o in ops:
            if o.get("sid") != sid or o["ret"] is None:
                continue
            if o["kind"] == "add":
                h.append({"k": "add", "ok": o["ok"], "v": o["ver"], "call": o["call"], "ret": o["ret"]})
            elif o["kind"] == "upd":
                h.append({"k": "upd", "res": o["res"], "v": o["ver"], "call": o["call"], "ret": o["ret"]})
            elif o["kind"] == "del":
                h.append({"k": "del", "res": o["res"], "call": o["call"], "ret": o["ret"], "faulted": bool(o.get("faulted"))})
        for r in ctx.removes:
            if r["sid"] == sid and r["ok"] and r["by"] != "del":
                if not info["doomed"]:
                    bad.append(("maintenance-removed-live-object", f"object {sid} (valid for 5000 s) removed inside {r['by']}"))
                h.append({"k": "gc", "call": r["call"], "ret": r["ret"], "by": r["by"]})
        for (c, r, seen, what) in observers:
            h.append({"k": "obs", "v": seen.get(sid), "call": c, "ret": r, "by": what})
        fin = [rec for rec in ctx.final_store.values() if rec["dataObject"]["header"]["stationId"] == sid]
        h.append({"k": "obs", "v": fin[0]["dataObject"]["cam"]["generationDeltaTime"] if fin else None, "call": END, "ret": END + 1, "by": "final"})
        init = ("p", info["v0"]) if info["pre"] else ("u",)
        res.count("object.histories_checked")
        if overlaps([x for x in h if x["k"] != "obs"]) or any(x["k"] != "obs" for x in h) and overlaps(h):
            res.count("object.concurrent_histories")
        try:
            ok, order = linz.check(h, init, obj_step(info["doomed"]))
        except TimeoutError:
            res.count("object.checker_budget_exhausted")
            continue
        if not ok:
            kinds = sorted({x["k"] if x["k"] != "obs" else "obs-" + x["by"] for x in h if x["k"] in ("upd", "del", "gc", "add") or x["k"] == "obs"})
            muts = sorted({x["k"] for x in h if x["k"] in ("upd", "del", "gc", "add")})
            bad.append((f"object-history-not-linearizable[{'+'.join(muts) or 'reads-only'}]", f"object {sid} init {init}: {brief(h)}"))
    # ---- providers
    for aid in (2, 5):
        h = []
        for o in ops:
            if o.get("aid") != aid or o["ret"] is None:
                continue
            if o["kind"] == "reg_p":
                h.append({"k": "reg", "ok": o["ok"], "call": o["call"], "ret": o["ret"]})
            elif o["kind"] == "dereg_p":
                h.append({"k": "dereg", "ack": o["ack"], "call": o["call"], "ret": o["ret"]})
            elif o["kind"] == "add":
                h.append({"k": "read", "v": o["ok"], "call": o["call"], "ret": o["ret"]})
        if not h:
            continue
        h.append({"k": "read", "v": aid in ctx.final_prov, "call": END, "ret": END + 1})
        res.count("provider.histories_checked")
        ok, _ = linz.check(h, ctx.init_prov[aid], reg_step)
        if not ok:
            bad.append(("provider-registry-not-linearizable", f"provider {aid} init {ctx.init_prov[aid]}: {brief(h)}"))
    # ---- consumers with their subscriptions
    for aid in (2, 3):
        h = []
        for o in ops:
            if o.get("aid") != aid or o["ret"] is None:
                continue
            if o["kind"] == "reg_c":
                h.append({"k": "reg", "ok": o["ok"], "call": o["call"], "ret": o["ret"]})
            elif o["kind"] == "dereg_c":
                h.append({"k": "dereg", "ack": o["ack"], "call": o["call"], "ret": o["ret"]})
            elif o["kind"] == "query":
                h.append({"k": "read", "v": o["ok"], "call": o["call"], "ret": o["ret"]})
            elif o["kind"] == "sub":
                h.append({"k": "sub", "ok": o["ok"], "key": o["key"], "call": o["call"], "ret": o["ret"]})
            elif o["kind"] == "unsub":
                h.append({"k": "unsub", "ok": o["ok"], "key": o["key"], "call": o["call"], "ret": o["ret"]})
        if not h:
            continue
        mine = frozenset(k for k, v in ctx.subs.items() if v["aid"] == aid)
        h.append({"k": "fin", "reg": aid in ctx.final_cons, "notified": frozenset(ctx.final_notified & mine), "call": END, "ret": END + 1})
        init = (ctx.init_cons[aid], frozenset(k for k in mine if ctx.subs[k]["pre"]))
        res.count("consumer.histories_checked")
        ok, _ = linz.check(h, init, cons_step)
        if not ok:
            muts = sorted({x["k"] for x in h if x["k"] not in ("read", "fin")})
            bad.append((f"consumer-history-not-linearizable[{'+'.join(muts)}]", f"consumer {aid} init {init}: {brief(h)}"))
    # ---- notifications during the run
    sub_ret = {k: 0 for k, v in ctx.subs.items() if v["pre"]}
    sub_call = dict(sub_ret)
    for o in ops:
        if o["kind"] == "sub" and o.get("ok") and o["ret"] is not None:
            sub_ret[o["key"]] = o["ret"]
            sub_call[o["key"]] = o["call"]
    removal_done = {}        # key -> earliest ret of a completed removal
    removal_begun = {}       # key -> earliest call of any removal attempt
    for o in ops:
        if o["ret"] is None:
            continue
        if o["kind"] == "unsub":
            removal_begun[o["key"]] = min(removal_begun.get(o["key"], 1 << 60), o["call"])
            if o["ok"]:
                removal_done[o["key"]] = min(removal_done.get(o["key"], 1 << 60), o["ret"])
        elif o["kind"] == "dereg_c":
            for k, v in ctx.subs.items():
                if v["aid"] != o["aid"] or k not in sub_call:
                    continue
                if sub_call[k] < o["ret"]:             # a subscription made after the deregistration returned is not touched by it
                    removal_begun[k] = min(removal_begun.get(k, 1 << 60), o["call"])
                if o["ack"] == 0 and sub_ret[k] < o["call"]:       # surely existed when the deregistration began
                    removal_done[k] = min(removal_done.get(k, 1 << 60), o["ret"])
    for c in ctx.cbs_run:
        res.count("notify.callbacks_judged")
        enc = c["op"]
        start = enc["call"] if enc else c["t"]
        k = c["key"]
        if k in removal_done and removal_done[k] < start:
            # dereg of a consumer that registered again afterwards does not bring subscriptions back either
            bad.append(("notification-after-completed-removal", f"subscription {k} removed at event {removal_done[k]}, notified in a pass started at {start}"))
        elif k in removal_done and c.get("pn") is not None and removal_done[k] < c["pn"]:
            res.count("notify.decided_after_removal_checked")
            bad.append(("notification-decided-after-completed-removal", f"subscription {k} removed at event {removal_done[k]}; the pass had begun before, but this notification was "
                        f"only decided at event {c['pn']}"))
        if k not in sub_call or c["t"] < sub_call[k]:
            bad.append(("notification-before-subscription", f"{k}"))
    # cadence under concurrency: the clock does not move during an execution, so a subscription with a notification interval
    # is notified at most once, however many attendance passes run at the same time
    for k, v in ctx.subs.items():
        if v.get("interval"):
            n_cb = sum(1 for c in ctx.cbs_run if c["key"] == k)
            res.count("notify.interval_subscriptions_judged")
            if n_cb > 1:
                bad.append(("notified-more-than-once-inside-one-interval", f"subscription {k} (interval 1 s) notified {n_cb} times at one instant by concurrent attendance passes"))
    sentinel = ctx.pre_sids[0]
    for o in ops:
        if o["kind"] != "attend" or o["ret"] is None:
            continue
        res.count("notify.passes_judged")
        got = {c["key"] for c in ctx.cbs_run if c["op"] is o}
        for k, r in sub_ret.items():
            if ctx.subs.get(k, {}).get("interval"):
                continue        # a subscription with an interval is withheld by the later passes of the same instant
            if r < o["call"] and removal_begun.get(k, 1 << 60) > o["ret"]:
                # the consumer stayed registered (a deregistration would be a removal attempt), the sentinel object is present
                if k not in got:
                    bad.append(("live-subscription-not-notified-by-attendance-pass", f"{k} subscribed by event {r}, pass {o['call']}..{o['ret']}"))
    return bad


def one(spec, plan, policy, res, mode, log_from=None, instr_points=True):
    ctx = execute(spec, plan, policy, log_from, instr_points)
    s = ctx.sched
    bad = judge(ctx, res)
    res.count("schedules")
    res.count("lock_waits", s.lock_waits)
    res.count("scheduling_points", s.step_no)
    if bad is None:
        res.count("watchdog_or_step_cap")
        return ctx
    pre = ctx.out["preemptions"]
    if pre:
        res.count("preempted_schedules")
    res.count("operations_recorded", len(ctx.ops))
    res.case((repr(spec["actors"]), spec["service"], spec["maint"], instr_points, S.switch_signature(s)), nontrivial=bool(pre))
    res.observe_max("max_preemptions_in_one_schedule", pre)
    res.observe_max("max_scheduling_points_in_one_schedule", s.step_no)
    for fn in S.preemption_sites(s):
        res.observe_set("functions_preempted_in", fn, cap=300)
    res.observe_set("variants", f"{spec['service']}/{spec['maint']}")
    if pre and len(res.samples) < 2:
        res.sample({"variant": f"{spec['service']}/{spec['maint']}", "actors": spec["actors"], "mode": mode,
                    "context_switches": [list(map(str, sw)) for sw in s.switches[:6]],
                    "history": [{k: (str(v) if k == "resp" else v) for k, v in o.items() if k in ("actor", "kind", "call", "ret", "sid", "aid", "key", "ok", "res", "ack")} for o in ctx.ops[:10]]})
    for key, desc in bad:
        res.violation(f"{key}[{spec['service']}/{spec['maint']}]", desc, {"spec": spec, "devs": sorted(s.devs.items()), "instr_points": instr_points})
    return ctx


# -------------------------------------------------------------------------------------------------- driver
N_CONFLICT_PAIRS = 20
BUDGET = {"quick": {"sync": 500, "instr": 500, "random": 200}, "thorough": {"sync": 10000, "instr": 6000, "random": 4000}}
NSHARD = {"quick": {"sync": 2, "instr": 3, "random": 2}, "thorough": {"sync": 4, "instr": 6, "random": 4}}
# the directed two-actor conflicts are small: one shard per mode explores them
BUDGET_C = {"quick": {"sync": 300, "instr": 400, "random": 100}, "thorough": {"sync": 6000, "instr": 4000, "random": 2000}}


def shards(tier, seed):
    rng = random.Random(seed * 104729 + 16)
    out = []
    n_scn = {"quick": 4, "thorough": 12}[tier]
    for i in range(n_scn):
        spec = gen_scenario(rng)
        for mode, nsh in NSHARD[tier].items():
            for sh in range(nsh):
                out.append({"spec": spec, "mode": mode, "shard": sh, "nshards": nsh, "tier": tier, "seed": seed * 1000 + i, "budget": BUDGET[tier][mode]})
    for j in range(N_CONFLICT_PAIRS * (1 if tier == "quick" else 3)):
        spec = gen_scenario(rng, conflict=j)
        for mode in ("sync", "instr", "random"):
            multi = 14 <= j % N_CONFLICT_PAIRS < 18 and any(len(a) >= 3 for a in spec["actors"][:2])
            # the multi-step conflicts need three context switches at the right places: a larger budget, split over shards
            nsh = 4 if multi and mode != "instr" else 1
            for sh in range(nsh):
                out.append({"spec": spec, "mode": mode, "shard": sh, "nshards": nsh, "tier": tier, "seed": seed * 1000 + 500 + j,
                            "budget": BUDGET_C[tier][mode] * (6 if multi and mode != "instr" else 1)})
    return out


def run_shard(spec_, res):
    from vf import explore
    spec, sh, nsh, tier, mode = spec_["spec"], spec_["shard"], spec_["nshards"], spec_["tier"], spec_["mode"]
    rng = random.Random(spec_["seed"] * 31 + sh * 7 + len(mode))

    def run_one(plan, policy, mode_, log_from, instr_points):
        return one(spec, plan, policy, res, mode_, log_from=log_from, instr_points=instr_points).sched
    explore.explore(run_one, res, mode, spec_.get("budget", BUDGET[tier][mode]), sh, nsh, rng)


def replay(case, res):
    one(case["spec"], tuple(tuple(d) for d in case["devs"]), None, res, "replay", instr_points=case.get("instr_points", True))


def coverage_extra(res):
    """Executions cut short by the wall-clock watchdog or the step cap decide nothing; too many of them make the run inconclusive."""
    cut = res.counters.get("watchdog_or_step_cap", 0)
    if cut and cut * 100 > res.counters.get("schedules", 0):
        res.inconc(f"{cut} of {res.counters.get('schedules', 0)} executions were cut short by the watchdog / step cap")
    return {"executions_cut_short": cut}
