"""C20 -- packet lifetime and hop budget on the wire honour the request.

Monitors (all on executions of the real code):
  Q  LT().set_value_in_millis(v) for v over the request range, against ref.lifetime.best(v)
  D  BasicHeader.decode of every lifetime code, against ref.lifetime.decode
  R  packets originated by a real router (beacon, SHB, GBC, GAC, GUC, LS request, LS reply) for requested
     lifetimes / hop limits / MIB defaults, parsed off the simulated ether by the independent codec
  X  reception of packets whose RHL exceeds MHL (must not be indicated nor forwarded)
"""
from __future__ import annotations

import random
from fractions import Fraction

from vf.ref import lifetime as RL
from vf.ref import wire as W

PROPERTY = "C20"
LEVEL = "exploration"
RULE = ("Q: requested lifetimes in ms (quick: every multiple of 50 +-1 up to 7 000 000 plus stride 97; thorough: every "
        "integer 0..7 000 000), distinct by value; D: all 256 LT codes; R: originated packets, distinct by (type, "
        "requested lifetime ms plus a sub-millisecond fraction, requested hop limit, MIB default lifetime, MIB default hop limit); X: (type, RHL, MHL) "
        "reception grid. Non-trivial = the monitor compared an on-wire/decoded value with the reference.")
ASSUMPTIONS = ["reference quantiser = brute force over the 256 codes of EN 302 636-4-1 9.6.4",
               "float requests (k+f)/1000 s, 0 <= f < 1, are judged against k ms (and against floor of the exact binary value): the wire carries whole milliseconds, so it must not exceed k"]
REQUIRED_COUNTERS = ["Q.compared", "D.compared", "R.lt_compared", "R.hop_compared", "X.injected"]
EXHAUSTIVE = {"thorough": False}

QMAX = 7_000_000


def band(v):
    if v < 50:
        return "<50"
    if v < 500:
        return "50..499"
    if v < 1000:
        return "500..999"
    if v < 10_000:
        return "1000..9999"
    if v < 100_000:
        return "10000..99999"
    if v < 1_000_000:
        return "100000..999999"
    if v <= RL.MAX_MS:
        return "1000000..6300000"
    return ">6300000"


def shards(tier, seed):
    out = []
    n = 16
    if tier == "thorough":
        step = QMAX // n + 1
        for i in range(n):
            out.append({"part": "Q", "mode": "range", "lo": i * step, "hi": min(QMAX + 1, (i + 1) * step)})
        nr, per = 16, 2500
    else:
        for i in range(4):
            out.append({"part": "Q", "mode": "lattice", "shard": i, "of": 4})
        nr, per = 8, 160
    out.append({"part": "D"})
    for i in range(nr):
        out.append({"part": "R", "seed": seed * 1000 + i, "cases": per})
    out.append({"part": "X", "seed": seed})
    return out


# ------------------------------------------------------------------------------------------ Q
def check_quant(v, res):
    from flexstack.geonet.basic_header import LT
    lt = LT().set_value_in_millis(v)
    code = lt.encode_to_int()
    got = RL.decode(code & 0xFF)
    mine = lt.get_value_in_millis()
    res.count("Q.compared")
    if mine != got or not (0 <= lt.multiplier <= 63):
        res.violation("C20:lt-object-inconsistent-with-its-code", f"LT for {v} ms: object says {mine} ms, code {code:#x} means {got}", {"part": "Q", "v": v})
    want = RL.best(v)
    if got > v:
        res.violation(f"C20:lt-exceeds-request[{band(v)}]", f"request {v} ms encoded as {got} ms (> request)", {"part": "Q", "v": v})
    elif got == 0 and v >= 50:
        res.violation(f"C20:lt-zero-for-request>=50ms[{band(v)}]", f"request {v} ms encoded as 0 (largest representable is {want})", {"part": "Q", "v": v})
    elif got != want:
        res.violation(f"C20:lt-below-largest-representable[{band(v)}]", f"request {v} ms encoded as {got} ms, largest representable <= request is {want}", {"part": "Q", "v": v})


def run_q(spec, res):
    if spec["mode"] == "range":
        lo, hi = spec["lo"], spec["hi"]
        for v in range(lo, hi):
            check_quant(v, res)
        res.enumerated(hi - lo)
        res.sample({"part": "Q", "range": [lo, hi]})
        return
    vals = set()
    for k in range(0, QMAX + 1, 50):
        vals.update((k - 1, k, k + 1))
    vals.update(range(0, QMAX + 1, 97))
    for edge in (0, 50, 100, 500, 1000, 3150, 3200, 10_000, 63_000, 64_000, 100_000, 630_000, 640_000, 1_000_000,
                 6_300_000, 6_400_000, QMAX):
        vals.update(range(max(0, edge - 3), edge + 4))
    vals = sorted(v for v in vals if 0 <= v <= QMAX)
    mine = vals[spec["shard"]::spec["of"]]
    for v in mine:
        check_quant(v, res)
    res.enumerated(len(mine))
    res.sample({"part": "Q", "lattice_values": mine[:5] + mine[-3:], "n": len(mine)})


# ------------------------------------------------------------------------------------------ D
def run_d(spec, res):
    from flexstack.geonet.basic_header import BasicHeader, LT, LTbase
    for code in range(256):
        for rhl in (0, 1, 255):
            raw = bytes([0x11, 0, code, rhl])
            bh = BasicHeader.decode_from_bytes(raw)
            res.count("D.compared")
            got = bh.lt.get_value_in_millis()
            if got != RL.decode(code):
                res.violation("C20:lt-decode-wrong", f"code {code:#04x} decoded as {got} ms, standard says {RL.decode(code)}", {"part": "D", "code": code})
            if bh.encode_to_bytes() != raw:
                res.violation("C20:lt-reencode-differs", f"basic header {raw.hex()} re-encodes as {bh.encode_to_bytes().hex()}", {"part": "D", "code": code})
            if bh.rhl != rhl:
                res.violation("C20:rhl-decode-wrong", f"rhl {rhl} decoded {bh.rhl}", {"part": "D", "code": code, "rhl": rhl})
        # the value its sender encoded: LT(mult, base) -> wire -> value
        lt = LT(multiplier=code >> 2, base=LTbase(code & 3))
        if lt.encode_to_int() != code:
            res.violation("C20:lt-encode-wrong", f"LT(mult={code >> 2}, base={code & 3}) encodes {lt.encode_to_int():#x}", {"part": "D", "code": code})
    res.enumerated(256)
    res.sample({"part": "D", "codes": "0..255 x rhl {0,1,255}"})


# ------------------------------------------------------------------------------------------ R
KINDS = ("beacon", "shb", "gbc", "gac", "guc", "ls_request", "ls_reply")


def gen_r(rng):
    kind = rng.choice(KINDS)
    r = rng.random()
    if r < 0.15:
        life_ms = None
    elif r < 0.55:
        k = rng.choice((50, 100, 500, 1000, 3150, 3200, 10_000, 63_000, 64_000, 100_000, 600_000, 630_000, 1_000_000))
        life_ms = max(0, k + rng.choice((-50, -1, 0, 0, 1, 49, 50)))
    elif r < 0.85:
        life_ms = rng.randrange(0, 700_000)
    else:
        life_ms = rng.randrange(0, QMAX)
    hop = rng.choice((0, 1, 2, 3, 10, 254, 255, rng.randrange(256)))
    # a requested lifetime is a float of seconds: it need not be a whole number of milliseconds (round 7, C20-agent7)
    frac = rng.choice((0, 0, 0, 0.4, 0.5, 0.6, 0.9, 0.9996, round(rng.random(), 4))) if life_ms is not None else 0
    return {"part": "R", "kind": kind, "life_ms": life_ms, "life_frac": frac, "hop": hop,
            "mib_life": rng.choice((1, 2, 3, 9, 10, 60, 63, 64, 100, 600, 630, 640, 1000, rng.randrange(1, 700))),
            "mib_hop": rng.choice((1, 2, 5, 10, 255, rng.randrange(1, 256))),
            "shape": rng.choice(("circle", "rect", "elip")), "scf": rng.random() < 0.2, "plen": rng.choice((0, 1, 30, 300))}


def phantom_pv(i, t, lat=415000000, lon=21000000):
    from vf.gnharness import mid_of
    from vf.vclock import tst_of
    return {"addr": {"m": 0, "st": 5, "mid": mid_of(i)}, "tst": tst_of(t), "lat": lat, "lon": lon, "pai": 1, "s": 0, "h": 0}


def run_r_case(c, res):
    from vf.gnharness import World, gn_request, area, tc, mid_of
    from flexstack.geonet.service_access_point import CommonNH
    lat, lon = 415000000, 21000000
    mib_over = {"itsGnDefaultPacketLifetime": c["mib_life"], "itsGnDefaultHopLimit": c["mib_hop"]}
    with World() as w:
        A = w.add("A", mid_of(1), lat=lat, lon=lon, mib_over=mib_over, ports=(2001,))
        B = w.add("B", mid_of(2), lat=lat + 500, lon=lon + 500, ports=(2001,))
        kind = c["kind"]
        life = None if c["life_ms"] is None else (c["life_ms"] + c.get("life_frac", 0)) / 1000.0
        payload = b"\x07\xd1\x00\x00" + bytes(c["plen"])
        if kind != "beacon":
            # make B a neighbour of A so that SCF never parks the packet in the (stub) buffer
            B.router.gn_data_request_beacon()
            w.settle()
        n0 = len(w.ether.wire)
        exc = None
        try:
            if kind == "beacon":
                A.router.gn_data_request_beacon()
            elif kind in ("shb", "gbc", "gac"):
                A.router.gn_data_request(gn_request(kind, payload, shape=c["shape"], ar=area(lat, lon, 200, 150, 0),
                                                    traffic=tc(scf=c["scf"]), hop=c["hop"], lifetime=life))
            elif kind == "guc":
                A.router.gn_data_request(gn_request("guc", payload, traffic=tc(scf=c["scf"]), hop=c["hop"], lifetime=life,
                                                    dest=B.addr))
            elif kind == "ls_request":
                from vf.stations import gn_addr
                A.router.gn_data_request(gn_request("guc", payload, hop=c["hop"], lifetime=life, dest=gn_addr(mid_of(77))))
            elif kind == "ls_reply":
                pv = phantom_pv(9, w.clock.now())
                pkt = W.enc_packet({"version": 1, "nh": 1, "lt_mult": 60, "lt_base": 1, "rhl": 5},
                                   {"nh": 0, "ht": W.HT_LS, "hst": 0, "tc": {"scf": 0, "co": 0, "id": 0}, "mobile": 1, "pl": 0, "mhl": 5},
                                   {"sn": 11, "so_pv": pv, "req_addr": {"m": 0, "st": 5, "mid": mid_of(1)}})
                w.ether.inject("A", pkt)
            w.settle()
        except Exception as e:  # noqa
            exc = e
        mine = [(seq, p) for (seq, t, s, p) in w.ether.wire[n0:] if s == "A"]
        # cancel LS timers etc.
        w.clock.heap.clear()
        if exc is not None:
            res.violation(f"C20:origination-raises[{kind}:{type(exc).__name__}]", f"{kind} request raised {exc!r}", c)
            return
        if not mine:
            res.count(f"R.no_packet[{kind}]")
            res.violation(f"C20:nothing-emitted[{kind}]", f"{kind} request emitted no packet", c)
            return
        seq, raw = mine[0]
        try:
            p = W.dec_packet(raw)
        except W.WireError as e:
            res.violation(f"C20:emitted-packet-unparseable[{kind}]", f"{e}", c)
            return
        want_ht = {"beacon": W.HT_BEACON, "shb": W.HT_TSB, "gbc": W.HT_GBC, "gac": W.HT_GAC, "guc": W.HT_GUC,
                   "ls_request": W.HT_LS, "ls_reply": W.HT_LS}[kind]
        if p["common"]["ht"] != want_ht:
            res.violation(f"C20:wrong-header-type[{kind}]", f"emitted ht={p['common']['ht']}", c)
            return
        # ---- lifetime
        got = W.lt_ms(p["basic"]["lt_mult"], p["basic"]["lt_base"])
        uses_request = kind in ("shb", "gbc", "gac", "guc") and c["life_ms"] is not None
        if uses_request:
            k = c["life_ms"]
            exact = Fraction(life) * 1000
            allowed = {RL.best(k), RL.best(int(exact))}
            req_ms = k
            src = "request"
        else:
            req_ms = c["mib_life"] * 1000
            allowed = {RL.best(req_ms)}
            src = "mib-default"
        res.count("R.lt_compared")
        res.count(f"R.kind[{kind}]")
        if uses_request and c.get("life_frac"):
            res.count("R.lt_compared_fractional_ms_request")
        if got > req_ms:
            res.violation(f"C20:lt-exceeds-request[{band(req_ms)}]", f"{kind}: {src} {req_ms} ms, on wire {got} ms", c)
        elif got == 0 and req_ms >= 50:
            res.violation(f"C20:lt-zero-for-request>=50ms[{band(req_ms)}]", f"{kind}: {src} {req_ms} ms, on wire 0", c)
        elif got not in allowed:
            res.violation(f"C20:lt-below-largest-representable[{band(req_ms)}]", f"{kind}: {src} {req_ms} ms, on wire {got}, want {sorted(allowed)}", c)
        # ---- hop limits
        rhl, mhl = p["basic"]["rhl"], p["common"]["mhl"]
        res.count("R.hop_compared")
        if kind in ("beacon", "shb"):
            if rhl != 1 or mhl != 1:
                res.violation(f"C20:single-hop-rhl-not-1[{kind}]", f"{kind}: rhl={rhl} mhl={mhl}", c)
        else:
            if kind in ("gbc", "gac", "guc"):
                want = c["hop"] if c["hop"] > 1 else c["mib_hop"]
            else:
                want = c["mib_hop"]
            if rhl != mhl:
                res.violation(f"C20:originated-rhl!=mhl[{kind}]", f"{kind}: rhl={rhl} mhl={mhl}", c)
            elif rhl != want:
                res.violation(f"C20:originated-hop-limit-wrong[{kind}]", f"{kind}: rhl=mhl={rhl}, want {want} (request {c['hop']}, mib {c['mib_hop']})", c)
        # ---- remaining lifetime reported by the receiver
        for (t, ind) in B.gn_ind:
            res.count("R.indications")
            rl = ind.remaining_packet_lifetime
            if rl is not None and rl * 1000 > got + 1e-6:
                res.violation("C20:indicated-remaining-lifetime-exceeds-wire", f"{kind}: wire {got} ms, indication {rl} s", c)
            if ind.remaining_hop_limit is not None and ind.remaining_hop_limit > rhl:
                res.violation("C20:indicated-remaining-hops-exceed-wire", f"{kind}: wire rhl {rhl}, indication {ind.remaining_hop_limit}", c)


def run_r(spec, res):
    rng = random.Random(spec["seed"])
    for i in range(spec["cases"]):
        c = gen_r(rng)
        run_r_case(c, res)
        res.case((c["kind"], c["life_ms"], c["hop"], c["mib_life"], c["mib_hop"]))
        if i < 2:
            res.sample(c)


# ------------------------------------------------------------------------------------------ X
def run_x_case(c, res):
    from vf.gnharness import World, mid_of
    lat, lon = 415000000, 21000000
    with World() as w:
        A = w.add("A", mid_of(1), lat=lat, lon=lon, ports=(2001,))
        B = w.add("B", mid_of(2), lat=lat + 500, lon=lon + 500, ports=(2001,))
        B.router.gn_data_request_beacon()
        w.settle()
        pv = phantom_pv(9, w.clock.now(), lat + 100, lon + 100)
        ht, hst = c["ht"], c["hst"]
        x = {"sn": 5, "so_pv": pv}
        me = {"m": 0, "st": 5, "mid": mid_of(1)}
        if ht in (W.HT_GBC, W.HT_GAC):
            x["area"] = {"lat": lat, "lon": lon, "a": 300, "b": 300, "angle": 0}
        if ht == W.HT_GUC or (ht == W.HT_LS and hst == 1):
            x["de_pv"] = {"addr": me, "tst": pv["tst"], "lat": lat, "lon": lon}
        if ht == W.HT_LS and hst == 0:
            x["req_addr"] = me
        payload = b"\x07\xd1\x00\x00hello"
        pkt = W.enc_packet({"version": 1, "nh": 1, "lt_mult": 60, "lt_base": 1, "rhl": c["rhl"]},
                           {"nh": 2, "ht": ht, "hst": hst, "tc": {"scf": 0, "co": 0, "id": 0}, "mobile": 1,
                            "pl": len(payload), "mhl": c["mhl"]}, x, payload if ht not in (W.HT_BEACON, W.HT_LS) else b"")
        n0 = len(w.ether.wire)
        w.ether.inject("A", pkt)
        w.settle()
        w.clock.heap.clear()
        res.count("X.injected")
        tx = [p for (_, _, s, p) in w.ether.wire[n0:] if s == "A"]
        bad = c["rhl"] > c["mhl"]
        if bad:
            res.count("X.rhl>mhl")
            if A.gn_ind or A.btp_ind:
                res.violation("C20:rhl>mhl-delivered", f"ht={ht}/{hst} rhl={c['rhl']} mhl={c['mhl']} was indicated", c)
            if tx:
                res.violation("C20:rhl>mhl-forwarded-or-answered", f"ht={ht}/{hst} rhl={c['rhl']} mhl={c['mhl']} caused {len(tx)} transmissions", c)
        else:
            res.count("X.rhl<=mhl")
            # control: the same frame with a legal hop budget is processed (delivery types only)
            if ht in (W.HT_GBC, W.HT_GAC, W.HT_GUC) or (ht == W.HT_TSB):
                if not A.gn_ind:
                    res.violation("C20:control-frame-not-delivered", f"ht={ht}/{hst} rhl={c['rhl']} mhl={c['mhl']} valid frame not indicated ({[repr(e[3]) for e in w.ether.errors]})", c)


def run_x(spec, res):
    types = [(W.HT_BEACON, 0), (W.HT_TSB, 0), (W.HT_TSB, 1), (W.HT_GBC, 0), (W.HT_GBC, 1), (W.HT_GAC, 2), (W.HT_GUC, 0),
             (W.HT_LS, 0), (W.HT_LS, 1)]
    grid = [(0, 0), (1, 0), (1, 1), (2, 1), (10, 10), (11, 10), (255, 254), (255, 255), (255, 0), (5, 10), (128, 127)]
    for ht, hst in types:
        for rhl, mhl in grid:
            if (ht == W.HT_BEACON or (ht == W.HT_TSB and hst == 0)) and rhl <= mhl and (rhl, mhl) != (1, 1):
                continue
            c = {"part": "X", "ht": ht, "hst": hst, "rhl": rhl, "mhl": mhl}
            run_x_case(c, res)
            res.case(("X", ht, hst, rhl, mhl))
    res.sample({"part": "X", "types": types, "grid": grid})


def run_shard(spec, res):
    {"Q": run_q, "D": run_d, "R": run_r, "X": run_x}[spec["part"]](spec, res)


def replay(case, res):
    part = case.get("part")
    if part == "Q":
        check_quant(case["v"], res)
    elif part == "D":
        run_d({}, res)
    elif part == "R":
        run_r_case(case, res)
    elif part == "X":
        run_x_case(case, res)
