"""C11 -- facility messages faithfully encode the sensor input they were built from.

The real CA, VRU and DEN transmission paths are fed position/time/velocity reports over the ranges a GNSS daemon can
produce (every subset of optional keys, error estimates 0..hundreds, both hemispheres, altitudes -1000..10000 m, speeds
0..200 m/s, all station types/roles, VRU clustering states).  The payload of every BTPDataRequest is decoded with the
repository's own UPER coder (wrapping is visible because decode(encode(x)) != x) and compared element by element with an
independent mapping oracle written from TS 102 894-2 (resolution rounding, outOfRange / unavailable codes); a report that
makes generation raise, skip or stall is a violation.  The receiver-side reconstruction of the absolute generation time from
generationDeltaTime is checked for message ages 0..65 s across wrap-arounds.
"""
from __future__ import annotations

import datetime
import math
import random

PROPERTY = "C11"
LEVEL = "exploration"
RULE = ("reports drawn boundary-biased over the stated ranges with random subsets of optional keys; distinct by hash of (service, report, station data); "
        "non-trivial = the message was produced and at least one data element was compared with the mapping oracle.")
ASSUMPTIONS = ["asn1tools' UPER codec is the only decoder available: a symmetric codec bug inside asn1tools is invisible; the oracle is the report-to-element mapping",
               "tolerance 1 LSB of the data element; at the exact class boundaries of the confidence enumerations either neighbour is accepted",
               "semiMajorAxisOrientation and the unit of cluster radii are not judged (the service's intention is not documented)"]
REQUIRED_COUNTERS = ["cam.reports", "cam.elements_compared", "vam.reports", "vam.elements_compared", "denm.requests", "denm.elements_compared",
                     "cluster.leader_vams", "cluster.operation_containers", "gdt.reconstructions", "camtraj.reports", "camtraj.path_points_compared", "camtraj.path_histories_after_more_than_40_cams", "keytraj.reports", "keytraj.elements_compared"]

ITS_EPOCH_MS = 1072915200000
ALT_CONF = [(0.01, "alt-000-01"), (0.02, "alt-000-02"), (0.05, "alt-000-05"), (0.1, "alt-000-10"), (0.2, "alt-000-20"), (0.5, "alt-000-50"), (1, "alt-001-00"),
            (2, "alt-002-00"), (5, "alt-005-00"), (10, "alt-010-00"), (20, "alt-020-00"), (50, "alt-050-00"), (100, "alt-100-00"), (200, "alt-200-00")]


def iso(t):
    return datetime.datetime.fromtimestamp(t, datetime.timezone.utc).isoformat().replace("+00:00", "Z")


def gen_report(rng, t):
    def pick(vals, lo, hi):
        r = rng.random()
        if r < 0.4:
            return rng.choice(vals)
        if r < 0.6 and lo == 0:
            return min(hi, 10 ** rng.uniform(-3, math.log10(hi)))      # log-uniform: every class of the confidence enumerations
        return rng.uniform(lo, hi)
    tpv = {"class": "TPV", "mode": 3, "time": iso(t),
           "lat": pick((-90.0, -89.9999999, -33.3, -1e-7, 0.0, 1e-7, 45.0, 90.0), -90, 90),
           "lon": pick((-180.0, -179.9999999, -70.0, -1e-7, 0.0, 1e-7, 7.0, 179.9999999, 180.0), -180, 180),
           "altHAE": pick((-1000.0, -999.99, -0.01, 0.0, 0.004, 100.0, 6129.99, 6130.0, 6130.01, 7000.0, 7999.99, 8000.0, 8000.01, 10000.0), -1000, 10000),
           "speed": pick((0.0, 0.004, 0.01, 13.9, 163.8, 163.81, 163.82, 163.83, 163.9, 200.0), 0, 200),
           "track": pick((0.0, 0.04, 0.05, 0.1, 90.0, 359.9, 359.95, 359.99, 360.0), 0, 360),
           "epx": pick((0.0, 0.004, 0.01, 1.0, 40.93, 40.94, 40.95, 40.96, 50.0, 300.0), 0, 300),
           "epy": pick((0.0, 0.01, 2.0, 40.93, 40.94, 40.95, 41.0, 120.0), 0, 300),
           "epv": pick((0.0, 0.005, 0.01, 0.02, 0.5, 1.0, 19.99, 20.0, 199.99, 200.0, 200.01, 500.0), 0, 500),
           "epd": pick((0.0, 0.04, 0.05, 0.1, 1.0, 12.49, 12.5, 12.51, 12.6, 90.0, 300.0), 0, 300)}
    dropped = []
    for k in ("altHAE", "speed", "track", "epx", "epy", "epv", "epd"):
        if rng.random() < 0.15:
            tpv.pop(k)
            dropped.append(k)
    return tpv, dropped


def near(a, b, tol=1):
    return abs(a - b) <= tol


# ------------------------------------------------------------------------------------------ mapping oracle (TS 102 894-2)
def o_latlon(deg, unavailable):
    return int(round(deg * 1e7))


def o_semi_axis(m):
    v = m * 100.0
    if v <= 4093:
        return (int(v), int(v) + 1)
    return (4093, 4094) if v < 4094 else (4094,)     # cm; 4094 = outOfRange; 4095 = unavailable; 1 LSB tolerance at the edge


def o_altitude(m):
    v = m * 100.0
    if v < -100000:
        return (-100000,)
    if v >= 800000:
        return (800000,)
    return (math.floor(v), math.floor(v) + 1, math.ceil(v) - 1) if v == v else (800001,)


def o_alt_conf(epv):
    out = set()
    for i, (lim, name) in enumerate(ALT_CONF):
        if epv < lim or abs(epv - lim) < 1e-12:
            out.add(name)
            if abs(epv - lim) < 1e-12 and i + 1 < len(ALT_CONF):
                out.add(ALT_CONF[i + 1][1])
            break
    if not out:
        out.add("outOfRange")
    if abs(epv - 200) < 1e-12:
        out.add("outOfRange")
    return out


def o_heading(track):
    v = track * 10.0
    c = {int(v) % 3600 if int(v) == 3600 else int(v), (int(v) + 1) % 3600 if int(v) + 1 >= 3600 else int(v) + 1}
    if int(v) >= 3600:
        c |= {0, 3600}
    return c


def o_heading_conf(epd):
    v = epd * 10.0
    if v > 125:
        return {126} | ({125} if v < 126 else set())
    return {max(1, int(v)), max(1, int(v) + 1)} if v <= 125 else {126}


def o_speed(ms):
    v = ms * 100.0
    if v > 16381:
        return {16382} | ({16381} if v < 16382 else set())
    return {int(v), int(v) + 1}


def check_common(tag, res, ctx, tpv, pos, hf_heading, hf_heading_conf_key, hf_speed, white):
    """pos = referencePosition dict, hf_* = (value, confidence) decoded.  white = dict of 'unavailable' codes."""
    n = 0
    if "lat" in tpv:
        n += 1
        if not near(pos["latitude"], int(tpv["lat"] * 1e7)):
            res.violation(f"C11:{tag}:latitude-differs", f"report {tpv['lat']!r} -> {pos['latitude']}", ctx)
    if "lon" in tpv:
        n += 1
        if not near(pos["longitude"], int(tpv["lon"] * 1e7)):
            res.violation(f"C11:{tag}:longitude-differs", f"report {tpv['lon']!r} -> {pos['longitude']}", ctx)
    pce = pos["positionConfidenceEllipse"]
    if "epx" in tpv and "epy" in tpv:
        n += 2
        want_major, want_minor = o_semi_axis(max(tpv["epx"], tpv["epy"])), o_semi_axis(min(tpv["epx"], tpv["epy"]))
        for nm, got, want, src in (("semiMajorAxisLength", pce["semiMajorAxisLength"], want_major, max(tpv["epx"], tpv["epy"])),
                                   ("semiMinorAxisLength", pce["semiMinorAxisLength"], want_minor, min(tpv["epx"], tpv["epy"]))):
            if got not in want:
                cls = "out-of-range-wraps" if src * 100 > 4093 else "in-range"
                res.violation(f"C11:{tag}:{nm}-differs[{cls}]", f"error estimate {src!r} m -> {got}, expected one of {want}", ctx)
    else:
        n += 1
        if pce["semiMajorAxisLength"] != 4095 or pce["semiMinorAxisLength"] != 4095:
            res.violation(f"C11:{tag}:position-confidence-not-unavailable-without-estimates", f"{pce}", ctx)
    alt = pos["altitude"]
    if "altHAE" in tpv:
        n += 1
        want = o_altitude(tpv["altHAE"])
        if alt["altitudeValue"] not in want:
            v = tpv["altHAE"]
            cls = "6130m..8000m" if 6130 <= v < 8000 else ("below-range" if v < -1000 else "above-range" if v >= 8000 else "in-range")
            res.violation(f"C11:{tag}:altitudeValue-differs[{cls}]", f"altHAE {v!r} m -> {alt['altitudeValue']}, expected one of {sorted(set(want))}", ctx)
    else:
        n += 1
        if alt["altitudeValue"] != 800001:
            res.violation(f"C11:{tag}:altitude-not-unavailable-without-altHAE", f"{alt}", ctx)
    if "epv" in tpv:
        n += 1
        if alt["altitudeConfidence"] not in o_alt_conf(tpv["epv"]):
            res.violation(f"C11:{tag}:altitudeConfidence-differs", f"epv {tpv['epv']!r} -> {alt['altitudeConfidence']}, expected {sorted(o_alt_conf(tpv['epv']))}", ctx)
    hv, hc = hf_heading
    if "track" in tpv:
        n += 1
        if hv not in o_heading(tpv["track"]):
            res.violation(f"C11:{tag}:headingValue-differs", f"track {tpv['track']!r} -> {hv}", ctx)
    elif hv != white["heading"]:
        res.violation(f"C11:{tag}:heading-not-unavailable-without-track", f"{hv}", ctx)
    if "epd" in tpv:
        n += 1
        if hc not in o_heading_conf(tpv["epd"]):
            cls = "below-0.1deg" if tpv["epd"] * 10 < 1 else "in-range-or-above"
            res.violation(f"C11:{tag}:headingConfidence-differs[{cls}]", f"epd {tpv['epd']!r} -> {hc}, expected {sorted(o_heading_conf(tpv['epd']))}", ctx)
    sv = hf_speed
    if "speed" in tpv:
        n += 1
        if sv not in o_speed(tpv["speed"]):
            res.violation(f"C11:{tag}:speedValue-differs", f"speed {tpv['speed']!r} -> {sv}", ctx)
    elif sv != white["speed"]:
        res.violation(f"C11:{tag}:speed-not-unavailable-without-speed", f"{sv}", ctx)
    return n


class RecBTP:
    def __init__(self):
        self.reqs = []

    def btp_data_request(self, request):
        self.reqs.append(request)

    def register_indication_callback_btp(self, port, callback):
        pass


def run_cam(spec, res):
    from vf.vclock import VClock
    from flexstack.facilities.ca_basic_service import cam_transmission_management as ctm
    from flexstack.facilities.ca_basic_service.cam_coder import CAMCoder
    rng = random.Random(spec["seed"])
    clock = VClock().install()
    try:
        coder = CAMCoder()
        for k in range(spec["cases"]):
            btp = RecBTP()
            vd_kw = {"station_id": rng.choice((0, 1, 4294967295, rng.randrange(1 << 32))), "station_type": rng.randrange(16), "vehicle_role": rng.randrange(16),
                     "drive_direction": rng.choice(("forward", "backward", "unavailable")), "vehicle_width": rng.choice((1, 20, 61, 62)),
                     "vehicle_length": {"vehicleLengthValue": rng.choice((1, 45, 1022, 1023)), "vehicleLengthConfidenceIndication": "unavailable"},
                     "exterior_lights": bytes([rng.randrange(256)])}
            vd = ctm.VehicleData(**vd_kw)
            tm = ctm.CAMTransmissionManagement(btp, coder, vd)
            clock.advance(rng.choice((0.1, 1.0, 65.0)))
            tpv, dropped = gen_report(rng, clock.now())
            ctx = {"service": "cam", "report": tpv, "vehicle": {k2: (v if not isinstance(v, bytes) else v.hex()) for k2, v in vd_kw.items()}}
            res.count("cam.reports")
            tm._active = True            # activation without the timer: the check drives _evaluate_and_maybe_send itself
            tm.location_service_callback(tpv)
            try:
                tm._evaluate_and_maybe_send()
                clock.advance(0.6)
                tm.location_service_callback(tpv)
                tm._evaluate_and_maybe_send()       # a second CAM (with LF path history)
            except Exception as e:  # noqa
                res.violation(f"C11:cam:generation-raises-{type(e).__name__}", f"{e!r}", ctx)
                continue
            if len(btp.reqs) < 1:
                bad = [k2 for k2 in ("epd", "epx", "epy", "altHAE") if k2 in tpv]
                cls = "epd<0.1" if "epd" in tpv and tpv["epd"] * 10 < 1 else ("epx/epy>40.95" if max(tpv.get("epx", 0), tpv.get("epy", 0)) * 100 > 4095 else "other")
                res.violation(f"C11:cam:generation-skipped[{cls}]", "no CAM was handed to BTP for this report (encoding failed and the CAM was skipped)", ctx)
                continue
            for req in btp.reqs:
                try:
                    d = coder.decode(req.data)
                except Exception as e:  # noqa
                    res.violation("C11:cam:payload-undecodable", f"{e!r}", ctx)
                    continue
                p = d["cam"]["camParameters"]
                hf = p["highFrequencyContainer"][1]
                n = check_common("cam", res, ctx, tpv, p["basicContainer"]["referencePosition"], (hf["heading"]["headingValue"], hf["heading"]["headingConfidence"]), None,
                                 hf["speed"]["speedValue"], {"heading": 3601, "speed": 16383})
                res.count("cam.elements_compared", n + 4)
                if d["header"]["stationId"] != vd_kw["station_id"] or p["basicContainer"]["stationType"] != vd_kw["station_type"]:
                    res.violation("C11:cam:station-identity-differs", f"{d['header']} {p['basicContainer']['stationType']}", ctx)
                if hf["driveDirection"] != vd_kw["drive_direction"] or hf["vehicleWidth"] != vd_kw["vehicle_width"] or hf["vehicleLength"]["vehicleLengthValue"] != vd_kw["vehicle_length"]["vehicleLengthValue"]:
                    res.violation("C11:cam:vehicle-data-differs", f"{hf['driveDirection']} {hf['vehicleWidth']} {hf['vehicleLength']}", ctx)
                lf = p.get("lowFrequencyContainer")
                if lf is not None:
                    role = ctm._VEHICLE_ROLE_NAMES[vd_kw["vehicle_role"]]
                    if lf[1]["vehicleRole"] != role or lf[1]["exteriorLights"][0] != vd_kw["exterior_lights"]:
                        res.violation("C11:cam:low-frequency-container-differs", f"{lf[1]['vehicleRole']} {lf[1]['exteriorLights']}", ctx)
            res.case(repr(ctx))
            if k == 0:
                res.sample(ctx)
    finally:
        clock.uninstall()


def run_camtraj(spec, res):
    """Trajectories through ONE CA service instance: small steps and position jumps (one axis / both, either sign, around
    the +-131071 x 0.1 microdegree range of a path point).  Every report must yield a decodable CAM, and every path point of
    its low-frequency container must be the true offset of an earlier CAM position or the 'unavailable' code -- never a
    wrapped value; a jump must not stall the service."""
    from vf.vclock import VClock
    from flexstack.facilities.ca_basic_service import cam_transmission_management as ctm
    from flexstack.facilities.ca_basic_service.cam_coder import CAMCoder
    rng = random.Random(spec["seed"])
    clock = VClock().install()
    try:
        coder = CAMCoder()
        for k in range(spec["cases"]):
            btp = RecBTP()
            tm = ctm.CAMTransmissionManagement(btp, coder, ctm.VehicleData(station_id=rng.randrange(1 << 32), station_type=5))
            tm._active = True
            lat, lon = rng.uniform(-70, 70), rng.uniform(-170, 170)
            steps = []
            # every tenth trajectory is long enough to fill (and roll) the service's bounded path history several times over
            for _ in range(rng.randrange(45, 70) if k % 10 == 9 else rng.randrange(4, 10)):
                r = rng.random()
                if r < 0.5 or k % 10 == 9:
                    dlat, dlon = rng.uniform(-3e-4, 3e-4), rng.uniform(-3e-4, 3e-4)
                else:
                    mag = rng.choice((0.0131070, 0.0131071, 0.0131072, 0.0131073, 0.0132, 0.02, 0.05, 1.0))
                    axis = rng.choice(("lat", "lon", "both"))
                    dlat = mag * rng.choice((-1, 1)) if axis in ("lat", "both") else rng.uniform(-1e-4, 1e-4)
                    dlon = mag * rng.choice((-1, 1)) if axis in ("lon", "both") else rng.uniform(-1e-4, 1e-4)
                steps.append((dlat, dlon))
            ctx = {"service": "camtraj", "start": [lat, lon], "steps": steps}
            sent_pos = []      # positions of the CAMs handed over so far (most recent last)
            stalled = False
            for i, (dlat, dlon) in enumerate([(0.0, 0.0)] + steps):
                lat, lon = max(-89.0, min(89.0, lat + dlat)), max(-179.0, min(179.0, lon + dlon))
                clock.advance(1.1)          # beyond T_GenCamMax and the LF period: a CAM with the LF container is due
                tpv = {"class": "TPV", "mode": 3, "time": iso(clock.now()), "lat": lat, "lon": lon, "altHAE": 50.0, "speed": 10.0, "track": 45.0,
                       "epx": 2.0, "epy": 2.0, "epv": 3.0, "epd": 1.0}
                n0 = len(btp.reqs)
                res.count("camtraj.reports")
                try:
                    tm.location_service_callback(tpv)
                    tm._evaluate_and_maybe_send()
                except Exception as e:  # noqa
                    res.violation(f"C11:cam:generation-raises-{type(e).__name__}[trajectory]", f"{e!r}", {**ctx, "_step": i})
                    stalled = True
                    break
                jump = "jump" if max(abs(dlat), abs(dlon)) > 0.013 else "step"
                one_axis = (abs(dlat) > 0.013) != (abs(dlon) > 0.013)
                cls = f"[after-position-{jump}{'-in-one-axis' if jump == 'jump' and one_axis else ''}]"
                if len(btp.reqs) != n0 + 1:
                    res.violation(f"C11:cam:generation-skipped-or-stalled{cls}", f"report {i}: {len(btp.reqs) - n0} CAMs handed over 1.1 s after the previous one", {**ctx, "_step": i})
                    continue
                try:
                    d = coder.decode(btp.reqs[-1].data)
                except Exception as e:  # noqa
                    res.violation(f"C11:cam:payload-undecodable{cls}", f"{e!r}", {**ctx, "_step": i})
                    sent_pos.append((lat, lon))
                    continue
                lf = d["cam"]["camParameters"].get("lowFrequencyContainer")
                if lf is not None:
                    if len(sent_pos) > 40:
                        res.count("camtraj.path_histories_after_more_than_40_cams")
                    if sent_pos and not lf[1]["pathHistory"] and -131071 <= round((sent_pos[-1][0] - lat) * 1e7) <= 131071 and -131071 <= round((sent_pos[-1][1] - lon) * 1e7) <= 131071:
                        res.violation("C11:cam:path-history-empty-although-previous-cam-position-in-range" + ("[after-more-than-40-cams]" if len(sent_pos) > 40 else ""),
                                      f"{len(sent_pos)} earlier CAMs, the last one {round((sent_pos[-1][0] - lat) * 1e7)},{round((sent_pos[-1][1] - lon) * 1e7)} away", {**ctx, "_step": i})
                    for j, pp in enumerate(lf[1]["pathHistory"]):
                        res.count("camtraj.path_points_compared")
                        if j >= len(sent_pos):
                            res.violation("C11:cam:path-history-has-more-points-than-earlier-cams", f"{len(lf[1]['pathHistory'])} points, {len(sent_pos)} earlier CAMs", {**ctx, "_step": i})
                            break
                        h = sent_pos[-1 - j]
                        for name, true in (("deltaLatitude", round((h[0] - lat) * 1e7)), ("deltaLongitude", round((h[1] - lon) * 1e7))):
                            got = pp["pathPosition"][name]
                            inr = -131071 <= true <= 131071
                            if inr and abs(got - true) > 1:
                                res.violation(f"C11:cam:path-point-{name}-differs", f"point {j}: {got}, true offset {true}", {**ctx, "_step": i})
                            if not inr and got != 131072:
                                res.violation(f"C11:cam:path-point-{name}-out-of-range-not-unavailable[{'wrapped' if abs(got - true) % 262144 == 0 else 'other'}]",
                                              f"point {j}: {got}, true offset {true} is outside -131071..131071", {**ctx, "_step": i})
                sent_pos.append((lat, lon))
            res.case(repr(ctx))
            if k == 0:
                res.sample(ctx)
    finally:
        clock.uninstall()


def run_keytraj(spec, res):
    """Report streams through ONE long-lived CA / VRU service instance in which the set of keys changes from report to
    report (a receiver going from a 3D fix to a 2D fix to position only, standstill without track, ...): every message
    must encode ITS OWN report -- a field the report lacks is 'unavailable', never the value of an earlier report."""
    import time as real_time
    from vf.vclock import VClock
    from flexstack.facilities.ca_basic_service import cam_transmission_management as ctm
    from flexstack.facilities.ca_basic_service.cam_coder import CAMCoder
    from flexstack.facilities.vru_awareness_service import vam_transmission_management as vtm
    from flexstack.facilities.vru_awareness_service.vam_coder import VAMCoder
    rng = random.Random(spec["seed"])
    clock = VClock().install()
    saved = real_time.time
    real_time.time = clock.now
    try:
        cam_coder, vam_coder = CAMCoder(), VAMCoder()
        for k in range(spec["cases"]):
            which = "cam" if k % 2 == 0 else "vam"
            btp = RecBTP()
            sid = rng.randrange(1, 1 << 32)
            if which == "cam":
                tm = ctm.CAMTransmissionManagement(btp, cam_coder, ctm.VehicleData(station_id=sid, station_type=5))
                tm._active = True
                coder, step_s = cam_coder, 1.1
            else:
                plain = rng.random() < 0.5      # device data configured with plain dicts (as applications and tests do) or the defaults
                kw = {"heading": {"value": 3601, "confidence": 127}, "speed": {"speedValue": 16383, "speedConfidence": 127}} if plain else {}
                tm = vtm.VAMTransmissionManagement(btp, vam_coder, vtm.DeviceDataProvider(station_id=sid, station_type=1, **kw))
                coder, step_s = vam_coder, 5.2
            lat, lon = rng.uniform(-60, 60), rng.uniform(-170, 170)
            reports = []
            # the receiver's reported time may fall behind the delivery instant from some report on (leap-second / UTC-offset
            # correction, week roll-over handling): the stream goes on, one message per report
            back_from, back_s = (rng.randrange(1, 4), rng.choice((1.0, 2.0, 18.0))) if rng.random() < 0.3 else (99, 0.0)
            for i in range(rng.randrange(3, 8)):
                clock.advance(step_s)
                tpv, dropped = gen_report(rng, clock.now() - (back_s if i >= back_from else 0.0))
                if i == back_from:
                    res.count("keytraj.reported_time_steps_back")
                still = back_s and i >= back_from and reports and rng.random() < 0.7
                if not still:
                    lat, lon = lat + rng.uniform(-1e-4, 1e-4), lon + rng.uniform(-1e-4, 1e-4)
                tpv["lat"], tpv["lon"] = lat, lon
                if still:
                    # standing still: same dynamics as the previous report, so only the elapsed-time trigger can fire
                    for kk in ("speed", "track"):
                        tpv.pop(kk, None)
                        if kk in reports[-1]:
                            tpv[kk] = reports[-1][kk]
                    res.count("keytraj.standing_still_reports_after_the_step")
                for kk in ("epx", "epy", "epv", "epd"):        # error estimates in their nominal ranges: extremes are the single-report parts' business
                    if kk in tpv:
                        tpv[kk] = min(tpv[kk], 10.0) if kk != "epd" else max(0.2, min(tpv[kk], 10.0))
                if "altHAE" in tpv:
                    tpv["altHAE"] = max(-500.0, min(5000.0, tpv["altHAE"]))
                reports.append(tpv)
                ctx = {"service": "keytraj", "which": which, "reports": list(reports)}
                n0 = len(btp.reqs)
                res.count("keytraj.reports")
                try:
                    tm.location_service_callback(tpv)
                    if which == "cam":
                        tm._evaluate_and_maybe_send()
                except Exception as e:  # noqa
                    res.violation(f"C11:{which}:generation-raises-{type(e).__name__}[report-stream-with-changing-keys]", f"{e!r}", ctx)
                    break
                if len(btp.reqs) != n0 + 1:
                    res.violation(f"C11:{which}:generation-skipped-or-stalled[report-stream-with-changing-keys]", f"report {i}: {len(btp.reqs) - n0} messages", ctx)
                    continue
                try:
                    d = coder.decode(btp.reqs[-1].data)
                except Exception as e:  # noqa
                    res.violation(f"C11:{which}:payload-undecodable[report-stream-with-changing-keys]", f"{e!r}", ctx)
                    continue
                sub = Result_tag(res, "[after-earlier-reports-with-other-keys]" if i else "")
                if which == "cam":
                    p = d["cam"]["camParameters"]
                    hf = p["highFrequencyContainer"][1]
                    n = check_common("cam", sub, ctx, tpv, p["basicContainer"]["referencePosition"], (hf["heading"]["headingValue"], hf["heading"]["headingConfidence"]), None,
                                     hf["speed"]["speedValue"], {"heading": 3601, "speed": 16383})
                else:
                    p = d["vam"]["vamParameters"]
                    hf = p["vruHighFrequencyContainer"]
                    n = check_common("vam", sub, ctx, tpv, p["basicContainer"]["referencePosition"], (hf["heading"]["value"], hf["heading"]["confidence"]), None,
                                     hf["speed"]["speedValue"], {"heading": 3601, "speed": 16383})
                res.count("keytraj.elements_compared", n)
            res.case(repr((which, reports)))
            if k == 0:
                res.sample({"service": "keytraj", "which": which, "reports": reports[:3]})
    finally:
        real_time.time = saved
        clock.uninstall()


class Result_tag:
    """Result proxy that appends an input-class tag to every violation key."""

    def __init__(self, res, tag):
        self.res, self.tag = res, tag

    def violation(self, key, desc, case):
        self.res.violation(key + self.tag, desc, case)

    def count(self, *a, **k):
        self.res.count(*a, **k)


def run_vam(spec, res):
    import time as real_time
    from vf.vclock import VClock
    from flexstack.facilities.vru_awareness_service import vam_transmission_management as vtm
    from flexstack.facilities.vru_awareness_service.vam_coder import VAMCoder
    from flexstack.facilities.vru_awareness_service.vru_clustering import VBSClusteringManager, ClusterBreakupReason, ClusterLeaveReason
    rng = random.Random(spec["seed"])
    clock = VClock().install()
    saved = real_time.time
    real_time.time = clock.now
    try:
        coder = VAMCoder()
        for k in range(spec["cases"]):
            btp = RecBTP()
            sid = rng.choice((1, 4294967295, rng.randrange(1, 1 << 32)))
            stype = rng.choice((1, 2, 3, 4))
            cstate = rng.choice(("none", "standalone", "leader", "leader-breakup", "joining", "join-cancelled", "leaving"))
            mgr = None
            if cstate != "none":
                mgr = VBSClusteringManager(own_station_id=sid, own_vru_profile=rng.choice(("pedestrian", "bicyclistAndLightVruVehicle")), time_fn=clock.now)
            tm = vtm.VAMTransmissionManagement(btp, coder, vtm.DeviceDataProvider(station_id=sid, station_type=stype), clustering_manager=mgr)
            clock.advance(rng.choice((0.1, 1.0, 65.0)))
            tpv, dropped = gen_report(rng, clock.now())
            for need in ("lat", "lon"):
                tpv.setdefault(need, 1.0)
            ctx = {"service": "vam", "report": tpv, "station_id": sid, "station_type": stype, "cluster_state": cstate}
            want_cluster = None
            if mgr is not None:
                lat, lon = tpv["lat"], tpv["lon"]
                if cstate in ("leader", "leader-breakup"):
                    for j in range(4):
                        mgr.on_received_vam({"header": {"stationId": 1000 + j}, "vam": {"vamParameters": {"basicContainer": {"referencePosition": {"latitude": int(lat * 1e7), "longitude": int(lon * 1e7)}},
                                                                                                           "vruHighFrequencyContainer": {"speed": {"speedValue": 100}, "heading": {"value": 10}}}}})
                    if not mgr.try_create_cluster(lat, lon):
                        res.violation("C11:cluster:cannot-create-cluster-with-4-nearby-vrus", "", ctx)
                        continue
                    want_cluster = {"id": mgr.get_cluster_id()}
                    if cstate == "leader-breakup":
                        mgr.trigger_breakup_cluster(rng.choice(list(ClusterBreakupReason)))
                        clock.advance(rng.choice((0.0, 1.0, 2.8, 2.95)))
                elif cstate in ("joining", "join-cancelled"):
                    mgr.initiate_join(rng.randrange(1, 256))
                    clock.advance(rng.choice((0.0, 1.0, 2.8, 2.95)))
                    if cstate == "join-cancelled":
                        mgr.cancel_join()
                elif cstate == "leaving":
                    mgr.initiate_join(77)
                    clock.advance(3.0)
                    mgr.update(lat, lon, 1.0, 0.0)
                    mgr.on_received_vam({"header": {"stationId": 555}, "vam": {"vamParameters": {"basicContainer": {"referencePosition": {"latitude": int(lat * 1e7), "longitude": int(lon * 1e7)}},
                                                                                                     "vruClusterInformationContainer": {"vruClusterInformation": {"clusterId": 77, "clusterCardinalitySize": 3}}}}})
                    mgr.trigger_leave_cluster(rng.choice(list(ClusterLeaveReason)))
            res.count("vam.reports")
            try:
                tm.location_service_callback(tpv)
            except Exception as e:  # noqa
                cls = f"[cluster-state={cstate}]" if cstate not in ("none", "standalone") else ""
                res.violation(f"C11:vam:generation-raises-{type(e).__name__}{cls}", f"{e!r}", ctx)
                continue
            if not btp.reqs:
                res.violation(f"C11:vam:nothing-generated[cluster-state={cstate}]", "first report produced no VAM", ctx)
                continue
            try:
                d = coder.decode(btp.reqs[0].data)
            except Exception as e:  # noqa
                res.violation("C11:vam:payload-undecodable", f"{e!r}", ctx)
                continue
            p = d["vam"]["vamParameters"]
            hf = p["vruHighFrequencyContainer"]
            n = check_common("vam", res, ctx, tpv, p["basicContainer"]["referencePosition"], (hf["heading"]["value"], hf["heading"]["confidence"]), None,
                             hf["speed"]["speedValue"], {"heading": 3601, "speed": 16383})
            res.count("vam.elements_compared", n + 2)
            if d["header"]["stationId"] != sid or p["basicContainer"]["stationType"] != stype:
                res.violation("C11:vam:station-identity-differs", f"{d['header']}", ctx)
            if cstate in ("leader", "leader-breakup"):
                res.count("cluster.leader_vams")
                ci = p.get("vruClusterInformationContainer")
                if ci is None:
                    res.violation("C11:cluster:leader-vam-without-cluster-information", "", ctx)
                else:
                    v = ci["vruClusterInformation"]
                    if v.get("clusterId") != want_cluster["id"] or v.get("clusterCardinalitySize", 0) < 1:
                        res.violation("C11:cluster:cluster-information-differs", f"{v}", ctx)
                    shape = v.get("clusterBoundingBoxShape")
                    if not shape or shape[0] != "circular":
                        res.violation("C11:cluster:bounding-box-shape-missing-or-not-circular", f"{shape}", ctx)
            op = p.get("vruClusterOperationContainer")
            if cstate == "leader-breakup":
                res.count("cluster.operation_containers")
                if not op or "clusterBreakupInfo" not in op:
                    res.violation("C11:cluster:breakup-not-announced", f"{op}", ctx)
            if cstate == "joining":
                res.count("cluster.operation_containers")
                if not op or "clusterJoinInfo" not in op:
                    res.violation("C11:cluster:join-not-announced", f"{op}", ctx)
            if cstate in ("join-cancelled", "leaving"):
                res.count("cluster.operation_containers")
                if not op or "clusterLeaveInfo" not in op:
                    res.violation("C11:cluster:leave-not-announced", f"{op}", ctx)
            res.case(repr(ctx))
            if k == 0:
                res.sample(ctx)
    finally:
        real_time.time = saved
        clock.uninstall()


def run_denm(spec, res):
    from vf.vclock import VClock
    from flexstack.facilities.decentralized_environmental_notification_service import denm_transmission_management as dtm
    from flexstack.facilities.decentralized_environmental_notification_service.denm_coder import DENMCoder
    from flexstack.facilities.ca_basic_service.cam_transmission_management import VehicleData
    from flexstack.applications.road_hazard_signalling_service.emergency_vehicle_approaching_service import EmergencyVehicleApproachingService
    from flexstack.applications.road_hazard_signalling_service.service_access_point import DENRequest
    from flexstack.facilities.local_dynamic_map.ldm_classes import TimestampIts, ReferencePosition, PositionConfidenceEllipse, Altitude
    import types
    rng = random.Random(spec["seed"])
    clock = VClock().install()
    saved = dtm.time
    dtm.time = types.SimpleNamespace(sleep=lambda s: clock.advance(s), time=clock.now)
    try:
        coder = DENMCoder()
        for k in range(spec["cases"]):
            btp = RecBTP()
            vd = VehicleData(station_id=rng.randrange(1, 1 << 32), station_type=rng.randrange(16))
            tm = dtm.DENMTransmissionManagement(btp, coder, vd)
            den = types.SimpleNamespace(denm_transmission_management=tm)
            tpv, dropped = gen_report(rng, clock.now())
            ctx = {"service": "denm", "report": tpv}
            res.count("denm.requests")
            kind = rng.choice(("emergency", "collision"))
            try:
                if kind == "emergency":
                    svc = EmergencyVehicleApproachingService(den, duration=rng.choice((1000, 2000)))
                    svc.trigger_denm_sending.__func__  # noqa
                    # run the repetition loop in this thread (virtual sleep)
                    tm.request_denm_sending = lambda r: tm.trigger_denm_messages(r)
                    svc.trigger_denm_sending(tpv)
                else:
                    rp = ReferencePosition(latitude=int(tpv.get("lat", 0) * 1e7), longitude=int(tpv.get("lon", 0) * 1e7),
                                           position_confidence_ellipse=PositionConfidenceEllipse(4095, 4095, 3601), altitude=Altitude(800001, "unavailable"))
                    tm.send_collision_risk_warning_denm(DENRequest.with_collision_risk_warning(TimestampIts(int((clock.now() - 1072915200 + 5) * 1000)), rp))
            except Exception as e:  # noqa
                res.violation(f"C11:denm:generation-raises-{type(e).__name__}[{kind}]", f"{e!r}", ctx)
                continue
            if not btp.reqs:
                res.violation(f"C11:denm:nothing-generated[{kind}]", "", ctx)
                continue
            for req in btp.reqs:
                try:
                    d = coder.decode(req.data)
                except Exception as e:  # noqa
                    res.violation("C11:denm:payload-undecodable", f"{e!r}", ctx)
                    continue
                ep = d["denm"]["management"]["eventPosition"]
                n = 0
                if "lat" in tpv:
                    n += 1
                    if not near(ep["latitude"], int(tpv["lat"] * 1e7)):
                        res.violation("C11:denm:eventPosition-latitude-differs", f"{tpv['lat']} -> {ep['latitude']}", ctx)
                if "lon" in tpv:
                    n += 1
                    if not near(ep["longitude"], int(tpv["lon"] * 1e7)):
                        res.violation("C11:denm:eventPosition-longitude-differs", f"{tpv['lon']} -> {ep['longitude']}", ctx)
                if kind == "emergency" and "altHAE" in tpv:
                    n += 1
                    if ep["altitude"]["altitudeValue"] not in o_altitude(tpv["altHAE"]):
                        v = tpv["altHAE"]
                        cls = "6130m..8000m" if 6130 <= v < 8000 else "other"
                        res.violation(f"C11:denm:altitudeValue-differs[{cls}]", f"altHAE {v!r} -> {ep['altitude']['altitudeValue']}", ctx)
                if d["header"]["stationId"] != vd.station_id or d["denm"]["management"]["actionId"]["originatingStationId"] != vd.station_id:
                    res.violation("C11:denm:station-identity-differs", "", ctx)
                if req.gn_area.latitude != ep["latitude"] or req.gn_area.longitude != ep["longitude"]:
                    res.violation("C11:denm:destination-area-not-at-event-position", "", ctx)
                res.count("denm.elements_compared", n + 2)
            res.case(repr(ctx) + kind)
            if k == 0:
                res.sample(ctx)
    finally:
        dtm.time = saved
        clock.uninstall()


def run_gdt(spec, res):
    from flexstack.facilities.ca_basic_service.cam_transmission_management import GenerationDeltaTime
    rng = random.Random(spec["seed"])
    for _ in range(spec["cases"]):
        gen_ms = rng.choice((ITS_EPOCH_MS + rng.randrange(10 ** 9, 10 ** 12), ITS_EPOCH_MS - 5000 + 65536 * rng.randrange(10 ** 4, 10 ** 7) + rng.choice((-2, -1, 0, 1, 2, 65535, 65534))))
        age = rng.choice((0, 1, 99, 100, 1000, 64999, 65000, 65535 - rng.randrange(0, 600), rng.randrange(0, 65000)))
        age = min(age, 65000)
        rx_ms = gen_ms + age
        g = GenerationDeltaTime.from_timestamp(gen_ms / 1000.0)
        want_gdt = (gen_ms - ITS_EPOCH_MS + 5000) % 65536
        res.count("gdt.reconstructions")
        case = {"part": "gdt", "gen_ms": gen_ms, "age_ms": age}
        if abs(g.msec - want_gdt) > 1 and abs(g.msec - want_gdt) != 65535:
            res.violation("C11:generationDeltaTime-of-timestamp-wrong", f"{g.msec} vs {want_gdt}", case)
        back = GenerationDeltaTime(msec=want_gdt).as_timestamp_in_certain_point(rx_ms)
        if abs(back - gen_ms) > 1:
            res.violation("C11:generation-time-reconstruction-wrong", f"generated {gen_ms}, received {age} ms later, reconstructed {back} (off by {back - gen_ms} ms)", case)
        res.case((gen_ms, age))
    res.sample({"part": "gdt", "cases": spec["cases"]})


def run_shard(spec, res):
    {"cam": run_cam, "camtraj": run_camtraj, "keytraj": run_keytraj, "vam": run_vam, "denm": run_denm, "gdt": run_gdt}[spec["part"]](spec, res)


def shards(tier, seed):
    if tier == "thorough":
        return ([{"part": "cam", "seed": seed * 103 + i, "cases": 20000} for i in range(6)] + [{"part": "vam", "seed": seed * 107 + i, "cases": 20000} for i in range(6)] +
                [{"part": "denm", "seed": seed * 109 + i, "cases": 8000} for i in range(3)] + [{"part": "gdt", "seed": seed * 113, "cases": 400000}] +
                [{"part": "camtraj", "seed": seed * 127 + i, "cases": 4000} for i in range(4)] + [{"part": "keytraj", "seed": seed * 131 + i, "cases": 4000} for i in range(4)])
    return ([{"part": "cam", "seed": seed * 103 + i, "cases": 700} for i in range(3)] + [{"part": "vam", "seed": seed * 107 + i, "cases": 700} for i in range(3)] +
            [{"part": "denm", "seed": seed * 109, "cases": 400}, {"part": "gdt", "seed": seed * 113, "cases": 20000}, {"part": "camtraj", "seed": seed * 127, "cases": 250},
             {"part": "keytraj", "seed": seed * 131, "cases": 200}])


def replay(case, res):
    svc = case.get("service") or case.get("part")
    run_shard({"part": svc if svc in ("cam", "camtraj", "keytraj", "vam", "denm", "gdt") else "cam", "seed": 0, "cases": 300}, res)
