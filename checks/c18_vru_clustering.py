"""C18 -- the VRU clustering state machine stays consistent and never silences a VRU for good.

  E  every event sequence up to a depth bound over {role on/off, try-create, initiate-join, cancel-join, leave, break-up,
     receive VAM (plain / cluster info / join / leave / break-up; from the leader or others), update} with clock steps
     {50 ms, 500 ms, 1 s, 3.1 s}, and random walks far beyond; after EVERY event the consistency predicates are evaluated on
     the public API and hooked fields, and a reference acceptor written from the clause 5.4.2 timing rules (notification
     durations, leader-lost, break-up) is compared with the public state / should_transmit_vam() / operation container
  L  closed loops: real VRUAwarenessService stacks (transmission + reception + clustering manager + real VAM coder) exchange
     VAMs over a simulated medium: a leader emerges, advertises its cluster, a fourth station joins and must end PASSIVE;
     the leader falls silent / announces break-up and the member must be stand-alone and transmitting again
"""
from __future__ import annotations

import itertools
import random

PROPERTY = "C18"
LEVEL = "exploration"
RULE = ("E: event sequences enumerated exhaustively to depth D (4 quick / 5 thorough) and random walks of length 40..200; distinct by the "
        "sequence; L: closed-loop scenarios; non-trivial = the predicates were evaluated after an event that changed the state or a timer.")
ASSUMPTIONS = ["'by the next update' is taken literally: time-driven transitions are expected at update() calls",
               "the acceptor compares public observables only (state, should_transmit_vam, kind/ids of the operation container, presence of the cluster information container)"]
REQUIRED_COUNTERS = ["E.events", "E.predicates_evaluated", "E.leader_states_seen", "E.passive_states_seen", "E.leader_lost_checked", "E.notification_durations_checked",
                     "L.loops", "L.join_completed"]

LAT, LON = 41.5, 2.1
STEPS = (0.05, 0.5, 1.0, 3.1)


def vam_dict(sender, kind=None, cid=0, reason=None, near=True):
    d = {"header": {"stationId": sender},
         "vam": {"vamParameters": {"basicContainer": {"referencePosition": {"latitude": int((LAT + (0.0 if near else 0.01)) * 1e7), "longitude": int(LON * 1e7)}},
                                   "vruHighFrequencyContainer": {"speed": {"speedValue": 120}, "heading": {"value": 900}}}}}
    p = d["vam"]["vamParameters"]
    if kind == "info":
        p["vruClusterInformationContainer"] = {"vruClusterInformation": {"clusterId": cid, "clusterBoundingBoxShape": ("circular", {"radius": 5}), "clusterCardinalitySize": 3}}
    elif kind == "join":
        p["vruClusterOperationContainer"] = {"clusterJoinInfo": {"clusterId": cid, "joinTime": 4}}
    elif kind == "leave":
        p["vruClusterOperationContainer"] = {"clusterLeaveInfo": {"clusterId": cid, "clusterLeaveReason": "notProvided"}}
    elif kind == "breakup":
        p["vruClusterOperationContainer"] = {"clusterBreakupInfo": {"clusterBreakupReason": reason or "clusteringPurposeCompleted", "breakupTime": 4}}
        p["vruClusterInformationContainer"] = {"vruClusterInformation": {"clusterId": cid, "clusterBoundingBoxShape": ("circular", {"radius": 5}), "clusterCardinalitySize": 3}}
    return d


ALPHABET = [("role_off",), ("role_on",), ("create",), ("join", 77), ("cancel",), ("leave",), ("breakup",), ("rx", "plain", 900), ("rx", "info77", 500), ("rx", "info88", 501), ("rx", "info77", 502),
            ("rx", "join_own", 901), ("rx", "breakup_leader", 500), ("rx", "breakup_cpm", 500), ("rx", "plain_leader", 500), ("update", 0.05), ("update", 0.5), ("update", 1.0), ("update", 3.1),
            ("near3",)]


OTHER_REASONS = ("clusteringPurposeCompleted", "notProvided", "leaderMovedOutOfClusterBoundingBox", "joiningAnotherCluster", "enteringLowRiskAreaBasedOnMaps", "max")


class Model:
    """Reference acceptor for the timing rules (clause 5.4.2 durations), stepped beside the real manager."""

    def __init__(self):
        self.mode = "STANDALONE"
        self.join = None        # (phase, t, target)
        self.leave = None       # (t, reason)
        self.breakup = None     # t
        self.leader = None      # leader station id when passive
        self.last_leader = None
        self.joined = None
        self.nearby = {}

    def op_kind(self):
        if self.mode == "STANDALONE":
            if self.join and self.join[0] == "notify":
                return "join"
            if self.join and self.join[0] in ("cancelled", "failed"):
                return "leave"
            if self.leave:
                return "leave"
            return None
        if self.mode == "PASSIVE":
            return "leave" if self.leave else None
        if self.mode == "LEADER":
            return "breakup" if self.breakup is not None else None
        return None

    def should_tx(self):
        return self.mode in ("STANDALONE", "LEADER")


def run_sequence(seq, res, sample=False):
    from vf.vclock import VClock
    from flexstack.facilities.vru_awareness_service.vru_clustering import VBSClusteringManager, VBSState, ClusterLeaveReason, ClusterBreakupReason
    clock = VClock()          # not installed globally: the manager takes time_fn
    mgr = VBSClusteringManager(own_station_id=42, own_vru_profile="pedestrian", time_fn=clock.now)
    m = Model()
    import zlib
    n_rx = [zlib.crc32(repr(seq).encode())]
    random.seed(7)
    ctx = {"part": "E", "seq": [list(e) for e in seq]}
    for i, ev in enumerate(seq):
        now = clock.now()
        k = ev[0]
        res.count("E.events")
        try:
            if k == "role_off":
                mgr.set_vru_role_off()
                nearby = m.nearby
                m.__init__()
                m.nearby = nearby          # what was heard from others is not forgotten by a role change
                m.mode = "IDLE"
            elif k == "role_on":
                mgr.set_vru_role_on()
                if m.mode == "IDLE":
                    m.mode = "STANDALONE"
            elif k == "near3":
                for j in range(4):
                    mgr.on_received_vam(vam_dict(1000 + j))
                    m.nearby[1000 + j] = now
            elif k == "create":
                ok = mgr.try_create_cluster(LAT, LON)
                enough = sum(1 for t in m.nearby.values() if now - t < 5.0) >= 3
                if m.mode == "STANDALONE" and enough and m.join is None:
                    if not ok:
                        res.violation("C18:cluster-creation-refused-although-conditions-hold", "", ctx)
                    else:
                        m.mode = "LEADER"
                        m.breakup = None
                elif ok:
                    res.violation("C18:cluster-created-although-conditions-do-not-hold" + ("[join-in-progress]" if m.join else ""), f"mode {m.mode}, enough nearby {enough}, join {m.join}", ctx)
                    m.mode = "LEADER"
            elif k == "join":
                ok = mgr.initiate_join(ev[1])
                want = m.mode == "STANDALONE" and m.join is None
                if ok != want:
                    res.violation("C18:initiate-join-answer-differs", f"returned {ok}, expected {want} (mode {m.mode}, join {m.join})", ctx)
                if ok:
                    m.join = ("notify", now, ev[1])
            elif k == "cancel":
                mgr.cancel_join()
                if m.mode == "STANDALONE" and m.join and m.join[0] in ("notify", "waiting"):
                    m.join = ("cancelled", now, m.join[2])
            elif k == "leave":
                mgr.trigger_leave_cluster(ClusterLeaveReason.SAFETY_CONDITION)
                if m.mode == "PASSIVE":
                    m.mode, m.leave, m.leader, m.last_leader, m.joined, m.join = "STANDALONE", (now, "safetyCondition"), None, None, None, None
                elif m.mode == "STANDALONE" and m.join and m.join[0] == "notify":
                    m.join = ("cancelled", now, m.join[2])
            elif k == "breakup":
                ok = mgr.trigger_breakup_cluster(ClusterBreakupReason.CLUSTERING_PURPOSE_COMPLETED)
                want = m.mode == "LEADER" and m.breakup is None
                if ok != want:
                    res.violation("C18:trigger-breakup-answer-differs", f"returned {ok}, expected {want}", ctx)
                if ok:
                    m.breakup = now
            elif k == "rx":
                what, sender = ev[1], ev[2]
                cid = mgr.get_cluster_id() if what == "join_own" else None
                # every value the ClusterBreakupReason type can carry on the air (a foreign leader may send any of them)
                n_rx[0] += 1
                other_reason = OTHER_REASONS[n_rx[0] % len(OTHER_REASONS)]
                if what == "breakup_leader":
                    res.count(f"breakup_reason_received[{other_reason}]")
                v = {"plain": vam_dict(sender), "plain_leader": vam_dict(sender), "info77": vam_dict(sender, "info", 77), "info88": vam_dict(sender, "info", 88),
                     "join_own": vam_dict(sender, "join", cid or 1), "breakup_leader": vam_dict(sender, "breakup", m.joined or 77, other_reason),
                     "breakup_cpm": vam_dict(sender, "breakup", m.joined or 77, "receptionOfCpmContainingCluster")}[what]
                mgr.on_received_vam(v)
                m.nearby[sender] = now
                info_cid = {"info77": 77, "info88": 88, "breakup_leader": m.joined or 77, "breakup_cpm": m.joined or 77}.get(what)
                if info_cid is not None:      # leader VAMs (also the break-up announcement) carry the cluster information container
                    c = info_cid
                    if m.mode == "STANDALONE" and m.join and m.join[0] == "waiting" and m.join[2] == c:
                        m.mode, m.leader, m.last_leader, m.joined, m.join = "PASSIVE", sender, now, c, ("joined", now, c)
                if m.mode == "PASSIVE" and sender == m.leader:
                    if what == "breakup_leader":
                        m.mode, m.leave, m.leader, m.last_leader, m.joined, m.join = "STANDALONE", (now, "clusterDisbandedByLeader"), None, None, None, None
                    else:
                        m.last_leader = now
            elif k == "update":
                clock.advance(ev[1])
                now = clock.now()
                mgr.update(LAT, LON, 1.2, 90.0)
                if m.mode == "STANDALONE":
                    if m.join and m.join[0] == "notify" and now - m.join[1] >= 3.0:
                        m.join = ("waiting", now, m.join[2])
                    elif m.join and m.join[0] == "waiting" and now - m.join[1] >= 0.5:
                        m.join = ("failed", now, m.join[2])
                    elif m.join and m.join[0] in ("cancelled", "failed") and now - m.join[1] >= 1.0:
                        m.join = None
                    if m.leave and now - m.leave[0] >= 1.0:
                        m.leave = None
                    res.count("E.notification_durations_checked")
                elif m.mode == "LEADER":
                    if m.breakup is not None and now - m.breakup >= 3.0:
                        m.mode, m.breakup = "STANDALONE", None
                    res.count("E.notification_durations_checked")
                elif m.mode == "PASSIVE":
                    res.count("E.leader_lost_checked")
                    if m.last_leader is not None and now - m.last_leader >= 2.0:
                        m.mode, m.leave, m.leader, m.last_leader, m.joined, m.join = "STANDALONE", (now, "clusterLeaderLost"), None, None, None, None
        except Exception as e:  # noqa
            res.violation(f"C18:event-raises-{type(e).__name__}[{k}]", f"{e!r}", ctx)
            return
        # ------------------------------------------------------------ predicates on the real object
        res.count("E.predicates_evaluated")
        st = mgr.state
        cl = mgr._cluster
        ectx = {**ctx, "after": i}
        is_leader = st is VBSState.VRU_ACTIVE_CLUSTER_LEADER
        owns = cl is not None and isinstance(cl.cluster_id, int) and 1 <= cl.cluster_id <= 255 and cl.cardinality >= 1
        if is_leader:
            res.count("E.leader_states_seen")
        if is_leader != (cl is not None) or (is_leader and not owns):
            res.violation("C18:leader-state-inconsistent-with-owned-cluster", f"state {st.value}, cluster {cl}", ectx)
        if is_leader and (mgr.get_cluster_id() != cl.cluster_id or mgr.get_cluster_information_container() is None):
            res.violation("C18:leader-without-cluster-information", "", ectx)
        if not is_leader and mgr.get_cluster_information_container() is not None:
            res.violation("C18:cluster-information-offered-by-non-leader", "", ectx)
        is_passive = st is VBSState.VRU_PASSIVE
        joined = mgr._joined_cluster_id is not None and mgr._leader_station_id is not None and mgr._last_leader_vam_time is not None
        if is_passive:
            res.count("E.passive_states_seen")
        if is_passive != joined:
            res.violation("C18:passive-state-inconsistent-with-joined-cluster", f"state {st.value}, joined {mgr._joined_cluster_id}, leader {mgr._leader_station_id}, timer {mgr._last_leader_vam_time}", ectx)
        tx = mgr.should_transmit_vam()
        if not tx and st not in (VBSState.VRU_PASSIVE, VBSState.VRU_IDLE):
            res.violation("C18:transmission-suppressed-outside-passive-or-idle", f"state {st.value}", ectx)
        # ------------------------------------------------------------ acceptor
        want_state = {"IDLE": VBSState.VRU_IDLE, "STANDALONE": VBSState.VRU_ACTIVE_STANDALONE, "LEADER": VBSState.VRU_ACTIVE_CLUSTER_LEADER, "PASSIVE": VBSState.VRU_PASSIVE}[m.mode]
        if st is not want_state:
            why = "passive-not-released" if st is VBSState.VRU_PASSIVE else f"{st.value}-instead-of-{want_state.value}"
            res.violation(f"C18:state-differs-from-timing-rules[{why}][after-{k}]", f"state {st.value}, timing rules say {want_state.value}", ectx)
            return
        if tx != m.should_tx() and not (st is VBSState.VRU_PASSIVE):
            res.violation("C18:should-transmit-differs", f"{tx} vs {m.should_tx()} in {st.value}", ectx)
        op = mgr.get_cluster_operation_container()
        kind = None if op is None else ("join" if "clusterJoinInfo" in op else "leave" if "clusterLeaveInfo" in op else "breakup" if "clusterBreakupInfo" in op else "?")
        if kind != m.op_kind():
            res.violation(f"C18:notification-duration-differs[got={kind},want={m.op_kind()}][after-{k}]", f"operation container {op}, timing rules expect {m.op_kind()}", ectx)
            return
        if kind == "join" and op["clusterJoinInfo"]["clusterId"] != m.join[2]:
            res.violation("C18:join-notification-names-another-cluster", f"{op}", ectx)
        if kind == "join" and not (1 <= op["clusterJoinInfo"]["joinTime"] <= 255):
            res.violation("C18:join-time-out-of-range", f"{op}", ectx)
        if kind == "breakup" and not (1 <= op["clusterBreakupInfo"]["breakupTime"] <= 255):
            res.violation("C18:breakup-time-out-of-range", f"{op}", ectx)
    if sample:
        res.sample(ctx)


def run_e(spec, res):
    if spec["mode"] == "exhaustive":
        prefix = [tuple(ALPHABET[i]) for i in spec["prefix"]]
        base = [("near3",), ("join", 77), ("update", 3.1)] if spec["start"] == "waiting" else [("near3",)] if spec["start"] == "near" else []
        n = 0
        for tail in itertools.product(ALPHABET, repeat=spec["depth"] - len(prefix)):
            seq = base + prefix + [tuple(t) for t in tail]
            run_sequence(seq, res, sample=(n == 0))
            n += 1
        res.enumerated(n)
    else:
        rng = random.Random(spec["seed"])
        for w in range(spec["walks"]):
            seq = [("near3",)] if rng.random() < 0.7 else []
            for _ in range(rng.randrange(40, 200)):
                r = rng.random()
                if r < 0.35:
                    seq.append(("update", rng.choice(STEPS)))
                elif r < 0.45:
                    seq.append(("rx", "info77", 500))
                elif r < 0.5:
                    seq.append(("join", 77))
                else:
                    seq.append(tuple(rng.choice(ALPHABET)))
            run_sequence(seq, res, sample=(w == 0))
            res.case(repr(seq))


# ------------------------------------------------------------------------------------------ closed loops
def run_l(spec, res):
    import time as real_time
    import datetime
    from vf.vclock import VClock
    from flexstack.facilities.vru_awareness_service.vru_awareness_service import VRUAwarenessService
    from flexstack.facilities.vru_awareness_service.vam_transmission_management import DeviceDataProvider
    from flexstack.facilities.vru_awareness_service.vru_clustering import VBSState, ClusterBreakupReason
    from flexstack.btp.service_access_point import BTPDataIndication
    rng = random.Random(spec["seed"])
    for loop in range(spec["loops"]):
        clock = VClock().install()
        saved = real_time.time
        real_time.time = clock.now
        try:
            n = rng.choice((4, 5))
            medium = []

            class Btp:
                def __init__(self, i):
                    self.i = i
                    self.cb = None

                def register_indication_callback_btp(self, port, callback):
                    self.cb = callback

                def btp_data_request(self, request):
                    medium.append((self.i, bytes(request.data)))
            S = []
            for i in range(n):
                b = Btp(i)
                svc = VRUAwarenessService(b, DeviceDataProvider(station_id=100 + i, station_type=1), ldm=None, cluster_support=True)
                svc.clustering_manager._time_fn = clock.now
                S.append((b, svc))
            ctx = {"part": "L", "seed": spec["seed"], "loop": loop, "n": n}

            def tick(silent=()):
                clock.advance(rng.choice((0.2, 0.5, 1.0)))
                t = datetime.datetime.fromtimestamp(clock.now(), datetime.timezone.utc).isoformat().replace("+00:00", "Z")
                for i, (b, svc) in enumerate(S):
                    if i in silent:
                        continue
                    tpv = {"time": t, "lat": LAT + i * 1e-6, "lon": LON, "speed": 1.2 + 0.8 * ((int(clock.now() * 10) + i) % 2), "track": 90.0, "altHAE": 10.0}
                    svc.clustering_manager.update(tpv["lat"], tpv["lon"], tpv["speed"], tpv["track"])
                    svc.vam_transmission_management.location_service_callback(tpv)
                while medium:
                    src, data = medium.pop(0)
                    for j, (b, svc) in enumerate(S):
                        if j != src and b.cb:
                            b.cb(BTPDataIndication(destination_port=2018, data=data, length=len(data)))
            try:
                for _ in range(4):
                    tick()
                lead = S[0][1].clustering_manager
                if not lead.try_create_cluster(LAT, LON):
                    res.violation("C18:loop:cluster-not-created-with-nearby-vrus", f"nearby {lead.get_nearby_vru_count()}", ctx)
                    continue
                cid = lead.get_cluster_id()
                tick()
                tick()
                member = S[n - 1][1].clustering_manager
                res.count("L.loops")
                if member.get_nearby_cluster_count() < 1:
                    res.violation("C18:loop:advertised-cluster-not-seen-by-peers", "the leader's cluster VAM went through the real coder but no peer registered the cluster", ctx)
                    continue
                if not member.initiate_join(cid):
                    res.violation("C18:loop:join-refused", "", ctx)
                    continue
                for _ in range(12):
                    tick()
                    if member.state is VBSState.VRU_PASSIVE:
                        break
                if member.state is not VBSState.VRU_PASSIVE:
                    res.violation("C18:loop:join-towards-advertised-cluster-does-not-complete", f"member state {member.state.value} 12 ticks after initiate_join({cid})", ctx)
                    continue
                res.count("L.join_completed")
                if member.should_transmit_vam():
                    res.violation("C18:loop:passive-member-still-transmits", "", ctx)
                if lead._cluster.cardinality < 2:
                    res.violation("C18:loop:leader-cardinality-not-updated-by-join", f"{lead._cluster.cardinality}", ctx)
                # the leader falls silent or announces break-up
                mode = rng.choice(("silent", "breakup"))
                if mode == "breakup":
                    lead.trigger_breakup_cluster(ClusterBreakupReason.CLUSTERING_PURPOSE_COMPLETED)
                    tick()
                    tick()
                else:
                    t_sil = clock.now()
                    while clock.now() - t_sil < 2.6:
                        tick(silent=(0,))
                if member.state is VBSState.VRU_PASSIVE or not member.should_transmit_vam():
                    res.violation(f"C18:loop:member-not-released[{mode}]", f"member state {member.state.value}, should_transmit {member.should_transmit_vam()}", ctx)
                res.case((spec["seed"], loop))
            except Exception as e:  # noqa
                res.violation(f"C18:loop:raises-{type(e).__name__}", f"{e!r}", ctx)
        finally:
            real_time.time = saved
            clock.uninstall()


def run_shard(spec, res):
    (run_e if spec["part"] == "E" else run_l)(spec, res)


def shards(tier, seed):
    out = []
    depth = 5 if tier == "thorough" else 4
    plen = 2 if tier == "thorough" else 1
    for start in ("fresh", "near", "waiting"):
        for p in itertools.product(range(len(ALPHABET)), repeat=plen):
            if tier == "quick" and start == "fresh" and p[0] % 2:
                continue
            out.append({"part": "E", "mode": "exhaustive", "depth": depth if start != "waiting" else depth - 1, "prefix": list(p), "start": start})
    out = out if tier == "thorough" else out
    for i in range(8 if tier == "thorough" else 2):
        out.append({"part": "E", "mode": "walks", "seed": seed * 137 + i, "walks": 3000 if tier == "thorough" else 400})
    for i in range(4 if tier == "thorough" else 1):
        out.append({"part": "L", "seed": seed * 139 + i, "loops": 400 if tier == "thorough" else 25})
    return out


def replay(case, res):
    if case.get("part") == "E":
        run_sequence([tuple(e) for e in case["seq"]], res)
    else:
        run_l({"seed": case["seed"], "loops": case["loop"] + 1}, res)
