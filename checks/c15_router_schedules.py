"""C15 -- GeoNetworking router under controlled thread schedules (bytecode-instruction granularity).

One real Router (real LocationTable) is built with scheduler-aware locks and timers (vf/sched.py).  2-4 actor threads each
perform 1-3 real operations (originate GBC/GUC/SHB, deliver received frames, refresh the ego position); timers started by
the router (CBF, LS retransmit) are further actors that the controller may fire at any step before their cancellation.
Every schedule is chosen by the controller: stateless DFS over all schedules with at most k preemptions at the
shared-state instructions of router.py / location_table.py, then randomised schedules.  After every execution monitors
over the recorded history decide:

  sn    sequence numbers of the multi-hop packets originated by the router are pairwise distinct
  cbf   each buffered CBF instance is consumed exactly once (transmitted by its timer or removed by a duplicate), hence
        at most one transmission per packet and none after a completed cancellation
  pv    every frame that carries the ego address as source carries a position vector that was installed at some instant
  ls    every request buffered behind a location lookup is transmitted exactly once, or was dropped by the give-up branch
        of the retransmit timer; none is lost, none is sent twice
  run   no actor raised (including exceptions that the receive guard would swallow) and the scheduler saw no deadlock
"""
from __future__ import annotations

import random
import sys

from vf import sched as S
from vf.ref import wire as W

PROPERTY = "C15"
LEVEL = "exploration"
RULE = ("one case = one executed schedule of one scenario; distinct = distinct sequence of (actor, instruction) context switches; "
        "non-trivial = at least one preemption or timer expiry was injected between instructions of another actor")
ASSUMPTIONS = ["one actor runs at a time (sequentially consistent interleavings of bytecode instructions; CPython's GIL gives no weaker behaviour)",
               "preemption points are the instructions of router.py/location_table.py that read or write attributes or subscripts, call, compare, test membership, enter a function or close a loop iteration (a superset of where CPython 3.12 hands over the GIL)",
               "a started timer may expire at any later instant until cancel() has been called (threading.Timer semantics)"]
REQUIRED_COUNTERS = ["schedules", "preempted_schedules", "timer_fired_between", "sn.judged", "cbf.instances_judged", "cbf.cancel_vs_expiry_races", "cbf.rebuffered_after_cancellation_judged",
                     "pv.judged", "ls.requests_judged", "ls.reply_vs_request_races", "lock_waits",
                     "ls.executions_with_a_refused_ls_request_frame", "cbf.executions_with_a_refused_geo_broadcast_frame"]

LAT, LON = 415000000, 21000000
_INS = None
_CACHE = {}


def mid(i):
    return bytes([2, 0, 0, 0, 0, i])


def instrument():
    global _INS
    if _INS is None:
        from flexstack.geonet import router, location_table
        _INS = S.Instrument([router, location_table])
    return _INS


# --------------------------------------------------------------------------------------------- scenarios
def gen_scenario(rng, fam, force_rebuffer=None):
    n_act = rng.choice((2, 2, 3, 3, 4))
    actors = []
    tag = [0]

    def t():
        tag[0] += 1
        return tag[0]
    if fam == "origin":
        pool = ["gbc", "gbc", "guc_known", "shb", "refresh", "rx_shb2", "rx_lsreq_me", "gac"]
        for a in range(n_act):
            ops = []
            for _ in range(rng.choice((1, 1, 2, 3))):
                k = rng.choice(pool)
                ops.append({"op": k, "tag": t()})
            actors.append(ops)
        # at least two originators
        actors[0][0] = {"op": rng.choice(("gbc", "guc_known")), "tag": t()}
        actors[1][0] = {"op": rng.choice(("gbc", "gac", "rx_lsreq_me")), "tag": t()}
    elif fam == "cbf":
        npk = rng.choice((1, 1, 2))
        frames = []
        for p in range(npk):
            frames += [{"op": "rx", "frame": f"gbc{p}"}, {"op": "rx", "frame": f"gbc{p}dup"}]
            if rng.random() < 0.3:
                frames.append({"op": "rx", "frame": f"gbc{p}dup"})
        rng.shuffle(frames)
        actors = [[] for _ in range(n_act)]
        for i, f in enumerate(frames):
            actors[i % n_act].append(f)
        rebuffer = (rng.random() < 0.35) if force_rebuffer is None else force_rebuffer
        if rebuffer:
            # duplicate list of length 1: the packet is buffered, cancelled by its duplicate, pushed out of the duplicate
            # list by another packet of the same source and buffered again while the first contention timer may still be
            # armed -- the cancelled instance must never be the one that is transmitted
            actors = [[] for _ in range(n_act)]
            actors[0] = [{"op": "rx", "frame": "gbc0"}, {"op": "rx", "frame": "gbc0dup"}, {"op": "rx", "frame": "gbc0q"}, {"op": "rx", "frame": "gbc0again"}]
        for a in actors:
            if not a or (len(a) < 3 and rng.random() < 0.3):
                a.append({"op": rng.choice(("gbc", "refresh", "rx_shb2")), "tag": t()})
        sc = {"fam": fam, "actors": actors, "prefire_ls": False, "seedpos": rng.randrange(1000), "rebuffer": rebuffer}
        if rng.random() < 0.25:
            sc["refuse_gbc_frame"] = rng.choice((1, 1, 2))
        return sc
    elif fam == "ls":
        actors = [[] for _ in range(n_act)]
        nreq = rng.choice((1, 2, 2, 3))
        for i in range(nreq):
            actors[i % (n_act - 1)].append({"op": "guc_unknown", "tag": t()})
        actors[n_act - 1].append({"op": "rx", "frame": "lsrep"})
        if rng.random() < 0.3:
            actors[rng.randrange(n_act)].append({"op": "rx", "frame": "lsrep"})
        for a in actors:
            if len(a) < 2 and rng.random() < 0.4:
                a.append({"op": rng.choice(("refresh", "gbc", "guc_unknown")), "tag": t()})
        if rng.random() < 0.5:
            rng.shuffle(actors)
    sc = {"fam": fam, "actors": actors, "prefire_ls": fam == "ls" and rng.random() < 0.7, "seedpos": rng.randrange(1000)}
    if fam == "ls" and rng.random() < 0.35:
        sc["refuse_ls_frame"] = rng.choice((1, 2, 2, 3))
    return sc


class LogDict(dict):
    """Monitor-side view of a router dictionary: same behaviour, every mutation logged with its caller."""

    def __init__(self, log, name):
        super().__init__()
        self._log, self._name = log, name

    def _caller(self):
        return sys._getframe(2).f_code.co_name

    def __setitem__(self, k, v):
        self._log.append(("set", self._name, k, v, self.get(k), self._caller()))
        super().__setitem__(k, v)

    def __delitem__(self, k):
        self._log.append(("del", self._name, k, self.get(k), None, self._caller()))
        super().__delitem__(k)

    def pop(self, k, *d):
        had = k in self
        r = super().pop(k, *d)
        self._log.append(("pop", self._name, k, r if had else None, None, self._caller()))
        return r

    def setdefault(self, k, d=None):
        if k not in self:
            self._log.append(("set", self._name, k, d, None, self._caller()))
        return super().setdefault(k, d)


class CaptureLL:
    def __init__(self, ctx):
        self.ctx = ctx

    def send(self, packet):
        s = S._current
        import threading
        a = s.by_ident.get(threading.get_ident()) if s else None
        k = self.ctx.spec.get("refuse_ls_frame")
        if k and len(packet) > 5 and (packet[5] >> 4) == W.HT_LS and (packet[5] & 15) == 0:
            self.ctx.ls_frames = getattr(self.ctx, "ls_frames", 0) + 1
            if self.ctx.ls_frames == k:
                # fault injection: the interface refuses this one LS Request (first transmission or a retransmission)
                self.ctx.refused = getattr(self.ctx, "refused", 0) + 1
                from flexstack.linklayer.exceptions import SendingException
                raise SendingException("interface busy (injected)")
        self.ctx.sent.append((s.step_no if s else -1, a.name if a else "main", bytes(packet)))
        kg = self.ctx.spec.get("refuse_gbc_frame")
        if kg and len(packet) > 5 and (packet[5] >> 4) == W.HT_GBC:
            self.ctx.gbc_frames = getattr(self.ctx, "gbc_frames", 0) + 1
            if self.ctx.gbc_frames == kg:
                # fault injection: the interface refuses this geo-broadcast frame (it stays in the log: the router did try)
                self.ctx.refused_gbc = getattr(self.ctx, "refused_gbc", 0) + 1
                from flexstack.linklayer.exceptions import SendingException
                raise SendingException("interface busy (injected)")
        if a is not None:
            s.sync_point(a, "transmit")


class Ctx:
    pass


def pv_key(d):
    return (d["addr"]["mid"], d["tst"], d["lat"], d["lon"], d.get("pai"), d.get("s"), d.get("h"))


def build(spec):
    """Fresh router + frames for one execution.  Returns ctx with .ops (callables per actor) and .teardown()."""
    from flexstack.geonet import router as RM, location_table as LM
    from flexstack.geonet.mib import MIB, AreaForwardingAlgorithm
    from flexstack.geonet.gn_address import GNAddress, M, ST, MID
    from flexstack.geonet.position_vector import LongPositionVector, TST
    from vf.vclock import VClock, tst_of
    from vf.gnharness import gn_request, area
    instrument()
    ctx = Ctx()
    ctx.spec = spec
    clock = VClock()
    clock.install()
    saved = (RM.Lock, LM.Lock, LM.RLock)
    RM.Lock, RM.Timer, LM.Lock, LM.RLock = S.Lock, S.SchedTimer, S.Lock, S.RLock

    def teardown():
        RM.Lock, LM.Lock, LM.RLock = saved
        clock.uninstall()
    ctx.teardown = teardown
    try:
        me_addr = GNAddress(m=M(0), st=ST(5), mid=MID(mid(1)))
        over = {"itsGnBeaconServiceRetransmitTimer": 0}
        if spec["fam"] == "cbf":
            over["itsGnAreaForwardingAlgorithm"] = AreaForwardingAlgorithm.CBF
            if spec.get("rebuffer"):
                over["itsGnDPLLength"] = 1
        mib = MIB(itsGnLocalGnAddr=me_addr, **over)
        r = RM.Router(mib)
        ctx.router = r
        ctx.sent, ctx.inds, ctx.log, ctx.guarded = [], [], [], []
        r.link_layer = CaptureLL(ctx)
        r.register_indication_callback(lambda ind: ctx.inds.append(ind))
        r._cbf_buffer = LogDict(ctx.log, "cbf")
        r._ls_packet_buffers = LogDict(ctx.log, "lsbuf")
        orig_pbh = r.process_basic_header

        def recording_pbh(packet, _o=orig_pbh):
            try:
                return _o(packet)
            except NotImplementedError:
                raise
            except Exception as e:  # noqa
                ctx.guarded.append(e)
                raise
        r.process_basic_header = recording_pbh
        now = clock.now()
        off = spec.get("seedpos", 0)
        pv0 = LongPositionVector(gn_addr=me_addr, tst=TST(msec=tst_of(now)), latitude=LAT + off, longitude=LON, pai=True, s=100, h=900)
        r.ego_position_vector = pv0
        tpvs = [{"lat": (LAT + off) / 1e7 + 0.0001 * (i + 1), "lon": LON / 1e7 + 0.0002 * (i + 1), "speed": 3.0 + i, "track": 10.0 * (i + 1),
                 "time": "2024-03-01T00:00:%02dZ" % (i + 1)} for i in range(8)]
        cached = _CACHE.get(off)
        if cached is None:
            ctx.installed = {(mid(1), pv0.tst.msec, pv0.latitude, pv0.longitude, 1, pv0.s, pv0.h)}
            for tp in tpvs:
                p = pv0.refresh_with_tpv_data(tp)
                ctx.installed.add((mid(1), p.tst.msec, p.latitude, p.longitude, int(p.pai), p.s, p.h))

            def spv(i, dlat, dlon, dt=-0.2):
                return {"addr": {"m": 0, "st": 5, "mid": mid(i)}, "tst": tst_of(now + dt), "lat": LAT + dlat, "lon": LON + dlon, "pai": 1, "s": 0, "h": 0}
            me_spv = {"addr": {"m": 0, "st": 5, "mid": mid(1)}, "tst": tst_of(now), "lat": LAT + off, "lon": LON}
            tc0 = {"scf": 0, "co": 0, "id": 3}
            bh = {"version": 1, "nh": 1, "lt_mult": 6, "lt_base": 2, "rhl": 5}
            ar = {"lat": LAT, "lon": LON, "a": 1000, "b": 1000, "angle": 0}
            frames = {}
            # neighbour N (north, towards D) announces itself with SHBs
            for name, dt in (("shb1", -0.3), ("shb2", -0.1)):
                frames[name] = W.enc_packet({**bh, "rhl": 1}, {"nh": 2, "ht": W.HT_TSB, "hst": 0, "tc": tc0, "mobile": 1, "pl": 4, "mhl": 1},
                                            {"so_pv": spv(2, 9000, 0, dt), "mdd": b"\x00\x00\x00\x00"}, b"\x07\xd1\x00\x00")
            for p in range(2):
                body = b"\x07\xd1\x00\x00" + bytes([0xA0 + p]) * 6
                chd = {"nh": 2, "ht": W.HT_GBC, "hst": 0, "tc": tc0, "mobile": 1, "pl": len(body), "mhl": 10}
                x = {"sn": 700 + p, "so_pv": spv(10 + p, -9000, 300 * p), "area": ar}
                frames[f"gbc{p}"] = W.enc_packet({**bh, "rhl": 5}, chd, x, body)
                frames[f"gbc{p}dup"] = W.enc_packet({**bh, "rhl": 4}, chd, x, body)
                if p == 0:
                    frames["gbc0again"] = W.enc_packet({**bh, "rhl": 9}, chd, x, body)
                    frames["gbc0q"] = W.enc_packet({**bh, "rhl": 5}, chd, {**x, "sn": 710}, b"\x07\xd1\x00\x00" + b"\xB0" * 6)
            d_pv = spv(30, 90000, 0)
            frames["lsrep"] = W.enc_packet({**bh, "rhl": 9}, {"nh": 0, "ht": W.HT_LS, "hst": 1, "tc": tc0, "mobile": 1, "pl": 0, "mhl": 10},
                                           {"sn": 41, "so_pv": d_pv, "de_pv": me_spv}, b"")
            frames["lsreq_me"] = W.enc_packet({**bh, "rhl": 9}, {"nh": 0, "ht": W.HT_LS, "hst": 0, "tc": tc0, "mobile": 1, "pl": 0, "mhl": 10},
                                              {"sn": 0, "so_pv": spv(40, -5000, 5000), "req_addr": {"m": 0, "st": 5, "mid": mid(1)}}, b"")
            _CACHE[off] = (ctx.installed, frames, spv, bh, tc0)
        ctx.installed, frames, spv, bh, tc0 = _CACHE[off]
        ctx.frames = frames
        ctx.d_addr = GNAddress(m=M(0), st=ST(5), mid=MID(mid(30)))
        ctx.n_addr = GNAddress(m=M(0), st=ST(5), mid=MID(mid(2)))
        r.gn_data_indicate(frames["shb1"])
        assert not ctx.guarded, ctx.guarded
        ctx.lsreq_sn = [0]

        def payload(tag):
            return b"\x07\xd1\x00\x00" + b"TAG" + bytes([tag])

        def make(op):
            k = op["op"]
            if k == "gbc" or k == "gac":
                req = gn_request(k, payload(op["tag"]), ar=area(LAT, LON, 1000, 1000, 0), hop=3)
                return lambda: r.gn_data_request(req)
            if k == "shb":
                req = gn_request("shb", payload(op["tag"]))
                return lambda: r.gn_data_request(req)
            if k == "guc_known":
                req = gn_request("guc", payload(op["tag"]), dest=ctx.n_addr, hop=3)
                return lambda: r.gn_data_request(req)
            if k == "guc_unknown":
                req = gn_request("guc", payload(op["tag"]), dest=ctx.d_addr, hop=3)
                return lambda: r.gn_data_request(req)
            if k == "refresh":
                tp = tpvs[op["tag"] % len(tpvs)]
                return lambda: r.refresh_ego_position_vector(tp)
            if k == "rx_shb2":
                return lambda: r.gn_data_indicate(frames["shb2"])
            if k == "rx_lsreq_me":
                ctx.lsreq_sn[0] += 1
                raw = W.enc_packet({**bh, "rhl": 9}, {"nh": 0, "ht": W.HT_LS, "hst": 0, "tc": tc0, "mobile": 1, "pl": 0, "mhl": 10},
                                   {"sn": ctx.lsreq_sn[0], "so_pv": spv(40, -5000, 5000), "req_addr": {"m": 0, "st": 5, "mid": mid(1)}}, b"")
                return lambda: r.gn_data_indicate(raw)
            if k == "rx":
                raw = frames[op["frame"]]
                return lambda: r.gn_data_indicate(raw)
            raise ValueError(k)

        def seq(ops):
            fs = [make(o) for o in ops]

            def run():
                for f in fs:
                    f()
            return run
        ctx.actor_fns = [seq(ops) for ops in spec["actors"]]
        ctx.pre_sent = 0
        if spec.get("prefire_ls"):
            # the lookup is already in progress (request on the air, retransmit timer armed) when the actors start
            pass
    except BaseException:
        teardown()
        raise
    return ctx


def execute(spec, plan=(), policy=None, log_from=None, instr_points=True):
    ctx = build(spec)
    try:
        s = S.Scheduler(instr_points=instr_points)
        ctx.sched = s
        for i, fn in enumerate(ctx.actor_fns):
            s.add_actor(f"a{i}", fn)
        out = s.run(plan=plan, policy=policy, log_from=log_from)
        ctx.concurrent_steps = s.step_no
        # quiescence: expire whatever is still armed, sequentially (retransmissions, give-up, CBF expiry)
        S._current = s
        try:
            for _ in range(200):
                pend = [t for t in s.timers if t.started and not t.cancelled and not t.fired]
                if not pend:
                    break
                t = pend[0]
                t.fired = True
                s.trace.append(("timer-fire-drain", t.name, s.step_no))
                s.step_no += 1
                try:
                    t.function(*t.args, **t.kwargs)
                except Exception as e:  # noqa
                    out["exceptions"].append((t.name, e))
            else:
                out["timer_storm"] = True
        finally:
            S._current = None
        ctx.out = out
    finally:
        ctx.teardown()
    return ctx


# ----------------------------------------------------------------------------------------------- monitors
def judge(ctx, res):
    """Offline checkers over the recorded history of one execution.  Returns list of (key, description)."""
    bad = []
    out, spec, s = ctx.out, ctx.spec, ctx.sched
    if out.get("timeout"):
        return None
    if out["deadlock"]:
        bad.append(("deadlock", f"all live actors blocked: {out.get('blocked')}"))
    for name, e in out["exceptions"]:
        bad.append((f"actor-raised[{type(e).__name__}]", f"{name}: {e!r}"))
    for e in ctx.guarded:
        bad.append((f"receive-path-raised[{type(e).__name__}]", repr(e)))
    if out.get("timer_storm"):
        bad.append(("timers-never-quiesce", "more than 200 timer expiries after the actors finished"))
    me = mid(1)
    sns = []
    tags_sent = {}
    cbf_tx = {}
    for step, who, raw in ctx.sent:
        try:
            d = W.dec_packet(raw)
            b, c, x, pl = d["basic"], d["common"], d["ext"], d["payload"]
        except Exception as e:  # noqa
            bad.append(("emitted-frame-undecodable", repr(e)))
            continue
        so = x.get("so_pv")
        if so is not None and so["addr"]["mid"] == me:
            res.count("pv.judged")
            k = (me, so["tst"], so["lat"], so["lon"], so.get("pai"), so.get("s"), so.get("h"))
            if k not in ctx.installed:
                bad.append(("emitted-pv-never-installed", f"{k} by {who} at step {step}"))
            if "sn" in x:
                sns.append((x["sn"], c["ht"], c["hst"], who, step))
            if pl[4:7] == b"TAG":
                tags_sent.setdefault(pl[7], []).append((step, who, c["ht"]))
        elif so is not None and "sn" in x and c["ht"] == W.HT_GBC:
            cbf_tx.setdefault((so["addr"]["mid"], x["sn"]), []).append((step, who, b["rhl"]))
    res.count("sn.judged", len(sns))
    seen = {}
    for sn, ht, hst, who, step in sns:
        if sn in seen:
            bad.append(("sequence-number-reused", f"sn {sn} by {seen[sn]} and {(who, step)}"))
        seen[sn] = (who, step)
    # CBF conservation: inserts = timer-transmissions + removals-by-duplicate + still-buffered(0 after drain)
    if spec["fam"] == "cbf":
        ins, rem_dup, rem_to = {}, {}, {}
        for kind, name, k, v, prev, caller in ctx.log:
            if name != "cbf":
                continue
            key = (k[0].mid.mid, k[1])
            if kind == "set":
                ins[key] = ins.get(key, 0) + 1
                if prev is not None:
                    bad.append(("cbf-instance-overwritten", f"{key}"))
            elif kind in ("pop", "del") and v is not None:
                if caller == "_cbf_timeout":
                    rem_to[key] = rem_to.get(key, 0) + 1
                else:
                    rem_dup[key] = rem_dup.get(key, 0) + 1
        for key in set(ins) | set(cbf_tx):
            res.count("cbf.instances_judged", ins.get(key, 0))
            ntx = len(cbf_tx.get(key, []))
            if ntx > ins.get(key, 0) - rem_dup.get(key, 0):
                bad.append(("cbf-sent-after-cancel-or-twice", f"{key}: buffered {ins.get(key, 0)} cancelled {rem_dup.get(key, 0)} transmitted {ntx}"))
            # one transmission per packet -- except that a packet which left the (length 1) duplicate list and arrived again
            # is a new packet as far as the station can tell: one transmission per buffered instance, told apart by RHL
            rh = [t_[2] for t_ in cbf_tx.get(key, [])]
            if (ntx > 1 and not spec.get("rebuffer")) or len(set(rh)) != len(rh):
                bad.append(("cbf-sent-after-cancel-or-twice", f"{key}: transmitted {ntx} times (RHLs {rh})"))
            if rem_dup.get(key, 0) and rem_to.get(key, 0) + rem_dup.get(key, 0) > ins.get(key, 0):
                bad.append(("cbf-instance-consumed-twice", f"{key}"))
        if spec.get("rebuffer"):
            key0 = (mid(10), 700)
            res.count("cbf.rebuffer_schedules")
            if rem_dup.get(key0, 0) and ins.get(key0, 0) >= 2:
                res.count("cbf.rebuffered_after_cancellation_judged")
                # the first instance (received with RHL 5, so sent with RHL 4) was cancelled by the duplicate
                if any(t_[2] == 4 for t_ in cbf_tx.get(key0, [])):
                    bad.append(("cbf-cancelled-instance-transmitted", f"{key0}: the copy whose cancellation had completed was transmitted (RHL 4) after the packet had been buffered anew"))
                elif not cbf_tx.get(key0):
                    bad.append(("cbf-rebuffered-instance-never-transmitted", f"{key0}"))
        if len(ctx.router._cbf_buffer):
            bad.append(("cbf-instance-stuck", f"{len(ctx.router._cbf_buffer)} entries after all timers expired"))
        # executions in which a buffered copy was discarded by a duplicate AND a contention timer expired between two
        # instructions of another actor (counted from the buffer log, not from Timer.cancel calls: how the code cancels is its business)
        fires = [t for t in s.trace if t[0] == "timer-fire"]
        if sum(rem_dup.values()) and fires:
            res.count("cbf.cancel_vs_expiry_races")
    if getattr(ctx, "refused", 0):
        res.count("ls.executions_with_a_refused_ls_request_frame")
    if getattr(ctx, "refused_gbc", 0):
        res.count("cbf.executions_with_a_refused_geo_broadcast_frame")
    # LS conservation
    unknown_tags = [o["tag"] for ops in spec["actors"] for o in ops if o["op"] == "guc_unknown"]
    if unknown_tags:
        dropped, lost = set(), set()
        for kind, name, k, v, prev, caller in ctx.log:
            if name != "lsbuf":
                continue
            if kind == "pop" and v:
                for req in v:
                    tg = req.data[7]
                    if caller == "_ls_retransmit":
                        dropped.add(tg)
            if kind == "set" and prev:
                for req in prev:
                    lost.add(req.data[7])
        for k, v in ctx.router._ls_packet_buffers.items():
            for req in v:
                lost.add(req.data[7])
        for tg in unknown_tags:
            res.count("ls.requests_judged")
            n = len([1 for (_, _, ht) in tags_sent.get(tg, []) if ht == W.HT_GUC])
            if n > 1:
                bad.append(("ls-buffered-request-sent-twice", f"tag {tg}: {tags_sent[tg]}"))
            elif n == 1 and tg in dropped:
                bad.append(("ls-buffered-request-sent-and-dropped", f"tag {tg}"))
            elif n == 0 and tg not in dropped:
                bad.append(("ls-buffered-request-lost", f"tag {tg} neither transmitted nor dropped by the final retry (overwritten/stuck: {tg in lost})"))
    for tg, lst in tags_sent.items():
        if len(lst) > 1:
            bad.append(("originated-packet-sent-twice", f"tag {tg}: {lst}"))
    return bad


def sig_of(s):
    """Signature of the interleaving: the sequence of context switches (who ran, where it was preempted)."""
    return S.switch_signature(s)


def one(spec, plan, policy, res, mode, log_from=None, instr_points=True):
    ctx = execute(spec, plan, policy, log_from, instr_points)
    s = ctx.sched
    bad = judge(ctx, res)
    res.count("schedules")
    res.count("lock_waits", s.lock_waits)
    res.count("scheduling_points", s.step_no)
    if bad is None:
        res.count("watchdog_or_step_cap")
        return ctx
    if ctx.out.get("plan_mismatch"):
        res.count("plan_mismatch")
    pre = ctx.out["preemptions"]
    if pre:
        res.count("preempted_schedules")
    fired_mid = [t for t in s.trace if t[0] == "timer-fire"]
    if fired_mid:
        res.count("timer_fired_between")
    if spec["fam"] == "ls":
        # a reply processed while a request was between its pending-check and its queueing (or vice versa)
        if pre and any(o["op"] == "rx" for ops in spec["actors"] for o in ops):
            res.count("ls.reply_vs_request_races")
    res.case((spec["fam"], instr_points, S.switch_signature(s)), nontrivial=bool(pre or fired_mid))
    res.observe_max("max_preemptions_in_one_schedule", pre)
    res.observe_max("max_scheduling_points_in_one_schedule", s.step_no)
    for fn in S.preemption_sites(s):
        res.observe_set("functions_preempted_in", fn, cap=300)
    if pre and len(res.samples) < 2:
        res.sample({"family": spec["fam"], "actors": spec["actors"], "mode": mode, "context_switches": [list(map(str, sw)) for sw in s.switches[:6]],
                    "timer_events": [list(map(str, t)) for t in s.trace[:6]],
                    "frames_sent": [(st, who, raw[:12].hex()) for st, who, raw in ctx.sent[:6]], "scheduling_points": s.step_no})
    for key, desc in bad:
        res.violation(f"{key}[{spec['fam']}]", desc, {"spec": spec, "devs": sorted(s.devs.items()), "instr_points": instr_points})
    return ctx


# ------------------------------------------------------------------------------------------------ driver
# exploration modes: see vf/explore.py
BUDGET = {"quick": {"sync": 700, "instr": 500, "random": 200}, "thorough": {"sync": 12000, "instr": 6000, "random": 4000}}
NSHARD = {"quick": {"sync": 2, "instr": 4, "random": 2}, "thorough": {"sync": 4, "instr": 8, "random": 4}}


def shards(tier, seed):
    rng = random.Random(seed * 7919 + 15)
    out = []
    n_scn = {"quick": 2, "thorough": 5}[tier]
    for fam in ("origin", "cbf", "ls"):
        for i in range(n_scn):
            # every tier has one CBF scenario of the buffered-cancelled-buffered-again kind
            spec = gen_scenario(rng, fam, force_rebuffer=(i == 0) if fam == "cbf" else None)
            if fam == "cbf" and i == 1:
                # ... and one in which the interface refuses the first geo-broadcast frame the station puts on the air
                spec["refuse_gbc_frame"] = 1
            if fam == "ls" and i == 0:
                # every tier has one location-service scenario in which the interface refuses one LS Request frame
                spec["refuse_ls_frame"] = spec.get("refuse_ls_frame") or rng.choice((1, 2))
            for mode, nsh in NSHARD[tier].items():
                for sh in range(nsh):
                    out.append({"spec": spec, "mode": mode, "shard": sh, "nshards": nsh, "tier": tier, "seed": seed * 1000 + i})
    return out


def run_shard(spec_, res):
    from vf import explore
    spec, sh, nsh, tier, mode = spec_["spec"], spec_["shard"], spec_["nshards"], spec_["tier"], spec_["mode"]
    rng = random.Random(spec_["seed"] * 31 + sh * 7 + len(mode))

    def run_one(plan, policy, mode_, log_from, instr_points):
        return one(spec, plan, policy, res, mode_, log_from=log_from, instr_points=instr_points).sched
    explore.explore(run_one, res, mode, BUDGET[tier][mode], sh, nsh, rng)


def replay(case, res):
    one(case["spec"], tuple(tuple(d) for d in case["devs"]), None, res, "replay", instr_points=case.get("instr_points", True))


def coverage_extra(res):
    """Executions cut short by the wall-clock watchdog or the step cap decide nothing; too many of them make the run inconclusive."""
    cut = res.counters.get("watchdog_or_step_cap", 0)
    if cut and cut * 100 > res.counters.get("schedules", 0):
        res.inconc(f"{cut} of {res.counters.get('schedules', 0)} executions were cut short by the watchdog / step cap")
    return {"executions_cut_short": cut}
