"""C12 -- the LDM behaves as a store of objects with registration gating and expiry.

A real LDM (facility + reactive service + reactive maintenance + Dictionary back-end; a TinyDB variant in a temp dir) is
driven through IF.LDM.3 / IF.LDM.4 by generated histories of register/deregister provider and consumer, add, update,
delete, request, virtual clock advance and explicit maintenance passes.  A reference map model is stepped in lock-step;
after EVERY step the full unfiltered content (queried through an auditor consumer) and the provider/consumer registries
are compared with the model, so an operation on one object that changes another object or a registration is seen at once.
"""
from __future__ import annotations

import copy
import random
import shutil
import tempfile

PROPERTY = "C12"
LEVEL = "exploration"
RULE = ("histories of 10..300 IF.LDM.3/4 operations over 3 provider ids, 2 consumer ids, message types CAM/DENM/VAM/POI/CPM, validity "
        "0..60 s; distinct by hash of the operation list; non-trivial = at least one add succeeded and one full comparison was made.")
ASSUMPTIONS = ["expiry is judged only outside +-1 s of timestamp+validity and 'gone' only after an explicit maintenance pass later than that (reactive passes may or may not have run)",
               "objects are placed inside the LDM's area of maintenance; the auditor consumer id is registered once and never touched by the history",
               "registration follows the LDM's own register/deregister responses; only their consequences are judged"]
REQUIRED_COUNTERS = ["maintenance_faults_injected", "steps", "full_comparisons", "adds_ok", "updates", "deletes", "expiry_gone_checked", "refusals_checked", "clock_set_back"]

PROVIDERS = (2, 1, 16)        # CAM, DENM, VAM application ids
CONSUMERS = (2, 16)
AUDITOR = 21                  # PAM: registered as consumer by the harness, never used by the history
TYPES = (2, 1, 16, 3, 14)


def gen(rng, maxlen):
    n = rng.randrange(10, maxlen)
    ops = []
    for _ in range(n):
        r = rng.random()
        if r < 0.08:
            ops.append({"op": "reg_p", "app": rng.choice(PROVIDERS + (0, 22, 99)), "perm": rng.choice(("own", "own", "all", "none", "other"))})
        elif r < 0.12:
            ops.append({"op": "dereg_p", "app": rng.choice(PROVIDERS + (7,))})
        elif r < 0.17:
            ops.append({"op": "reg_c", "app": rng.choice(CONSUMERS + (0, 30)), "perm": rng.choice(("own", "own", "all", "none"))})
        elif r < 0.20:
            ops.append({"op": "dereg_c", "app": rng.choice(CONSUMERS + (9,))})
        elif r < 0.50:
            ops.append({"op": "add", "app": rng.choice(PROVIDERS + (3,)), "type": rng.choice(TYPES), "validity": rng.choice((0, 1, 2, 5, 10, 60)),
                        "seed": rng.randrange(1 << 30), "at_ldm_position": rng.random() < 0.04, "ts_off": rng.choice((0, 0, -500, -3000))})
        elif r < 0.60:
            ops.append({"op": "update", "app": rng.choice(PROVIDERS + (3,)), "pick": rng.randrange(1 << 16), "other_type": rng.random() < 0.2,
                        "unknown": rng.random() < 0.12, "seed": rng.randrange(1 << 30)})
        elif r < 0.70:
            ops.append({"op": "delete", "app": rng.choice(PROVIDERS + (3,)), "pick": rng.randrange(1 << 16), "unknown": rng.random() < 0.15})
        elif r < 0.80:
            ops.append({"op": "query", "app": rng.choice(CONSUMERS + (9,)), "types": rng.choice(((2,), (1,), (16,), (2, 1), TYPES))})
        elif r < 0.92:
            ops.append({"op": "adv", "dt": rng.choice((0.2, 0.6, 1.0, 1.5, 3.0, 7.0, 30.0, 61.0))})
        elif r < 0.93:
            # the station's time source is corrected backwards (first GNSS fix, NTP step)
            ops.append({"op": "set_back", "dt": rng.choice((2.0, 5.0, 12.0, 45.0))})
        elif r < 0.98:
            ops.append({"op": "maint"})
        else:
            # fault injection: the next maintenance pass (explicit, or the reactive one inside an add) fails once
            ops.append({"op": "fault_next_maintenance"})
    # state hook: the history continues an LDM that has already handed out many identifiers (close to 2^16 / 2^31 / 2^32)
    used = rng.choice((None, None, None, 65530, 65534, (1 << 31) - 4, (1 << 32) - 3))
    if used:
        ops.insert(rng.randrange(len(ops) // 3, len(ops)), {"op": "age_ldm", "ids_already_used": used})
    return {"db": "Dictionary", "ops": ops}


def norm(o):
    """JSON-neutral form (tuples vs lists) so that both back-ends compare equal to the model."""
    if isinstance(o, (list, tuple)):
        return [norm(x) for x in o]
    if isinstance(o, dict):
        return {k: norm(v) for k, v in o.items()}
    return o


def run_case(c, res):
    from vf.vclock import VClock
    from vf import ldmharness as H
    from flexstack.facilities.local_dynamic_map.ldm_classes import (
        RegisterDataProviderReq, DeregisterDataProviderReq, RegisterDataConsumerReq, DeregisterDataConsumerReq, AddDataProviderReq,
        UpdateDataProviderReq, DeleteDataProviderReq, RequestDataObjectsReq, TimestampIts, TimeValidity, AccessPermission)
    clock = VClock().install()
    clock.install_ldm()
    tmp = tempfile.mkdtemp(prefix="verif-c12-") if c["db"] == "TinyDB" else None
    try:
        ldm = H.make_ldm(db=c["db"], tmpdir=tmp)
        i3, i4 = ldm.if_ldm_3, ldm.if_ldm_4
        db_ = ldm.ldm_maintenance.data_containers
        i4.register_data_consumer(RegisterDataConsumerReq(AUDITOR, (AccessPermission(AUDITOR),), H.area()))
        providers, consumers = set(), {AUDITOR}
        objs = {}              # id -> dict(rec, expire_its, type)
        all_ids = set()
        last_maint_its = -1
        last_maint_step = -1
        # every COMPLETED maintenance pass is observed (explicit ones and the reactive ones inside add); a pass can be made
        # to fail once (injected storage fault): the LDM must go on working afterwards
        maint = ldm.ldm_maintenance
        orig_collect = maint.collect_trash
        armed = [False]
        passes = []            # (its time, monotonic time) of completed passes
        orphans = []           # records stored by an add whose reactive pass then failed (identifier unknown to the caller)

        def collect_trash_hooked():
            if armed[0]:
                armed[0] = False
                res.count("maintenance_faults_injected")
                raise RuntimeError("injected fault: storage error during the maintenance pass")
            r_ = orig_collect()
            passes.append((H.its_now(clock), clock.now()))
            return r_
        maint.collect_trash = collect_trash_hooked
        reactive = hasattr(maint, "last_trash_collection_time")
        t_last_pass = clock.now()
        lost = {}              # id -> reason of a judged-lost object (so that one defect is reported once per object)

        def perms(op):
            return {"own": (AccessPermission(op["app"]),) if 1 <= op["app"] <= 21 else (AccessPermission.CAM,),
                    "all": tuple(AccessPermission(i) for i in (1, 2, 16)), "none": (), "other": (AccessPermission.POI,)}[op["perm"]]

        for step, op in enumerate(c["ops"]):
            ctx = {"db": c["db"], "ops": c["ops"][:step + 1]}
            kind = op["op"]
            now_its = H.its_now(clock)
            res.count("steps")
            try:
                if kind == "reg_p":
                    r = i3.register_data_provider(RegisterDataProviderReq(op["app"], perms(op), TimeValidity(1000)))
                    if r.result == 0:
                        if not (1 <= op["app"] <= 21):
                            res.violation("C12:invalid-application-id-registered-as-provider", f"app {op['app']}", ctx)
                        providers.add(op["app"])
                elif kind == "dereg_p":
                    r = i3.deregister_data_provider(DeregisterDataProviderReq(op["app"]))
                    if (r.result == 0) != (op["app"] in providers):
                        res.violation("C12:deregister-provider-answer-wrong", f"app {op['app']} registered={op['app'] in providers} answer {r.result}", ctx)
                    providers.discard(op["app"])
                elif kind == "reg_c":
                    r = i4.register_data_consumer(RegisterDataConsumerReq(op["app"], perms({**op, "perm": op["perm"]}), H.area()))
                    if r.result == 0:
                        if not (1 <= op["app"] <= 21):
                            res.violation("C12:invalid-application-id-registered-as-consumer", f"app {op['app']}", ctx)
                        consumers.add(op["app"])
                elif kind == "dereg_c":
                    r = i4.deregister_data_consumer(DeregisterDataConsumerReq(op["app"]))
                    if (r.ack == 0) != (op["app"] in consumers):
                        res.violation("C12:deregister-consumer-answer-wrong", f"app {op['app']}", ctx)
                    consumers.discard(op["app"])
                elif kind == "add":
                    rng = random.Random(op["seed"])
                    msg = H.message(rng, op["type"])
                    if op["at_ldm_position"]:
                        loc = H.location(H.LDM_LAT, H.LDM_LON, H.LDM_ALT)
                    else:
                        loc = H.location(H.LDM_LAT + rng.choice((-1, 1)) * rng.randrange(3000, 40000), H.LDM_LON + rng.choice((-1, 1)) * rng.randrange(3000, 40000))
                    ts = now_its + op["ts_off"]
                    req = AddDataProviderReq(op["app"], TimestampIts(ts), loc, msg, TimeValidity(op["validity"]))
                    n_pass = len(passes)
                    pass_due = reactive and op["app"] in providers and clock.now() - t_last_pass >= 1.0 + 1e-6
                    try:
                        r = i3.add_provider_data(req)
                    except RuntimeError as e_:
                        if "injected fault" not in repr(e_):
                            raise
                        # the object was stored before the pass failed; the caller never learnt its identifier
                        orphans.append(norm(copy.deepcopy(req.to_dict())))
                        res.count("adds_interrupted_by_a_maintenance_fault")
                        r = None
                    if len(passes) > n_pass:
                        t_last_pass = passes[-1][1]
                        last_maint_its, last_maint_step = passes[-1][0], step
                    elif pass_due and r is not None:
                        # reactive maintenance: an accepted add more than the collection interval after the last completed
                        # pass runs one -- a pass that silently does not happen leaves expired objects visible for ever
                        res.count("reactive_pass_due_but_not_run")
                        last_maint_its, last_maint_step = H.its_now(clock), step
                    if r is None:
                        pass
                    elif op["app"] in providers:
                        if not isinstance(r.data_object_id, int) or r.data_object_id < 0:
                            res.violation("C12:add-by-registered-provider-refused", f"app {op['app']}: id {r.data_object_id}", ctx)
                        else:
                            res.count("adds_ok")
                            if r.data_object_id in all_ids:
                                res.violation("C12:object-identifier-reused", f"id {r.data_object_id} handed out twice", ctx)
                            all_ids.add(r.data_object_id)
                            objs[r.data_object_id] = {"rec": norm(copy.deepcopy(req.to_dict())), "expire": ts + op["validity"] * 1000, "type": op["type"],
                                                      "at_ldm": op["at_ldm_position"], "step": step}
                    else:
                        res.count("refusals_checked")
                        if r.data_object_id != -1:
                            res.violation("C12:add-by-unregistered-provider-accepted", f"app {op['app']} got id {r.data_object_id}", ctx)
                elif kind == "update":
                    live = sorted(objs)
                    oid = (max(all_ids) + 1000 if all_ids else 12345) if (op["unknown"] or not live) else live[op["pick"] % len(live)]
                    rng = random.Random(op["seed"])
                    old_type = objs[oid]["type"] if oid in objs else 2
                    new_type = old_type if not op["other_type"] else rng.choice([t for t in TYPES if t != old_type])
                    msg = H.message(rng, new_type)
                    r = i3.update_provider_data(UpdateDataProviderReq(op["app"], oid, TimestampIts(now_its), H.location(H.LDM_LAT + 5000, H.LDM_LON + 5000), msg, TimeValidity(5)))
                    res.count("updates")
                    maybe = oid in objs and (oid in lost or now_its >= objs[oid]["expire"] - 1000)
                    if maybe:
                        # expired (or lost to a reported defect): both outcomes are explainable
                        if int(r.result) == 0 and new_type == old_type:
                            objs[oid]["rec"]["dataObject"] = norm(copy.deepcopy(msg))
                        elif int(r.result) == 1:
                            objs.pop(oid)
                        else:
                            objs[oid]["_maybe"] = norm(copy.deepcopy(msg))
                    elif oid not in objs:
                        if oid not in all_ids and int(r.result) != 1:
                            res.violation("C12:update-of-unknown-object-not-refused-as-unknown", f"id {oid}: result {r.result}", ctx)
                    elif op["app"] not in providers:
                        res.count("refusals_checked")
                        if int(r.result) == 0:
                            res.violation("C12:update-by-unregistered-provider-accepted", f"app {op['app']} updated object {oid}", ctx)
                            objs[oid]["rec"]["dataObject"] = norm(copy.deepcopy(msg))       # follow the implementation, the defect is reported
                        else:
                            objs[oid]["_maybe"] = norm(copy.deepcopy(msg))
                    elif new_type != old_type:
                        if int(r.result) == 0:
                            res.violation("C12:update-with-inconsistent-type-accepted", f"object {oid} of type {old_type} updated with type {new_type}", ctx)
                        objs[oid]["_maybe"] = norm(copy.deepcopy(msg))
                    else:
                        if int(r.result) != 0:
                            res.violation("C12:valid-update-reported-as-failed", f"object {oid}: result {r.result!s}", ctx)
                        if r.data_object_id != oid:
                            res.violation("C12:update-returns-other-identifier", f"{r.data_object_id} != {oid}", ctx)
                        objs[oid]["rec"]["dataObject"] = norm(copy.deepcopy(msg))
                elif kind == "delete":
                    live = sorted(objs)
                    oid = (max(all_ids) + 1000 if all_ids else 12345) if (op["unknown"] or not live) else live[op["pick"] % len(live)]
                    r = i3.delete_provider_data(DeleteDataProviderReq(op["app"], oid, TimestampIts(now_its)))
                    res.count("deletes")
                    maybe = oid in objs and (oid in lost or now_its >= objs[oid]["expire"] - 1000)
                    if maybe:
                        if int(r.result) == 0:
                            objs[oid]["_deleted"] = True
                        else:
                            objs.pop(oid)
                    elif oid not in objs:
                        if oid not in all_ids and int(r.result) == 0:
                            res.violation("C12:delete-of-unknown-object-succeeds", f"id {oid}", ctx)
                    elif op["app"] not in providers:
                        res.count("refusals_checked")
                        if int(r.result) == 0:
                            res.violation("C12:delete-by-unregistered-provider-accepted", f"app {op['app']} deleted object {oid}", ctx)
                            objs[oid]["_deleted_by_unregistered"] = True
                    else:
                        if int(r.result) != 0:
                            res.violation("C12:valid-delete-reported-as-failed", f"object {oid}", ctx)
                        objs[oid]["_deleted"] = True
                elif kind == "query":
                    r = i4.request_data_objects(RequestDataObjectsReq(op["app"], tuple(op["types"]), None, None, None))
                    if op["app"] not in consumers:
                        res.count("refusals_checked")
                        if int(r.result) == 0 or r.data_objects:
                            res.violation("C12:request-by-unregistered-consumer-answered", f"app {op['app']}: result {r.result!s}, {len(r.data_objects)} objects", ctx)
                    else:
                        if int(r.result) != 0:
                            res.violation("C12:request-by-registered-consumer-refused", f"app {op['app']}: {r.result!s}", ctx)
                        got = [norm(x) for x in r.data_objects]
                        for oid, o in objs.items():
                            if o["type"] in op["types"] and now_its < o["expire"] - 1000 and not o.get("_deleted") and oid not in lost:
                                if o["rec"] not in got and not ("_maybe" in o and {**o["rec"], "dataObject": o["_maybe"]} in got):
                                    res.violation(f"C12:typed-query-misses-live-object[{H.TYPE_KEY[o['type']]}]", f"object {oid} missing from query for types {op['types']}", ctx)
                elif kind == "adv":
                    clock.advance(op["dt"])
                elif kind == "set_back":
                    clock.t -= op["dt"]
                    res.count("clock_set_back")
                elif kind == "maint":
                    try:
                        ldm.ldm_maintenance.collect_trash()
                        last_maint_its = H.its_now(clock)
                        last_maint_step = step
                        t_last_pass = clock.now() if not reactive else t_last_pass
                    except RuntimeError as e_:
                        if "injected fault" not in repr(e_):
                            raise
                elif kind == "fault_next_maintenance":
                    armed[0] = True
                elif kind == "age_ldm":
                    # state hook: from here on the LDM behaves as if it had already handed out that many identifiers (objects
                    # added and deleted long ago) -- the ones handed out earlier in this history stay taken
                    if hasattr(db_, "_next_id") and isinstance(getattr(db_, "_next_id"), int) and db_._next_id < op["ids_already_used"]:
                        db_._next_id = op["ids_already_used"]
                        res.count("histories_continuing_a_long_lived_ldm")
            except Exception as e:  # noqa
                res.violation(f"C12:operation-raises-{type(e).__name__}[{kind}]", f"{e!r}", ctx)
                return
            # ------------------------------------------------------------ compare after every step
            now_its = H.its_now(clock)
            try:
                r = i4.request_data_objects(RequestDataObjectsReq(AUDITOR, TYPES, None, None, None))
                got = [norm(x) for x in r.data_objects]
            except Exception as e:  # noqa
                res.violation(f"C12:audit-query-raises-{type(e).__name__}[after-{kind}]", f"{e!r}", ctx)
                return
            res.count("full_comparisons")
            if int(r.result) != 0:
                res.violation("C12:audit-query-refused", f"{r.result!s}", ctx)
            # deletions take effect now
            for oid in [k for k, o in objs.items() if o.get("_deleted")]:
                o = objs.pop(oid)
                if o["rec"] in got:
                    res.violation("C12:deleted-object-still-returned", f"object {oid} was deleted successfully but the unfiltered query still returns it", ctx)
                    lost[oid] = "zombie"
            for oid in [k for k, o in objs.items() if o.get("_deleted_by_unregistered")]:
                o = objs[oid]
                o.pop("_deleted_by_unregistered")
                if o["rec"] not in got:
                    objs.pop(oid)
            if set(ldm.ldm_service.get_data_provider_its_aid()) != providers:
                res.violation(f"C12:provider-registry-changed-by-{kind}", f"registry {sorted(ldm.ldm_service.get_data_provider_its_aid())}, model {sorted(providers)}", ctx)
                providers = set(ldm.ldm_service.get_data_provider_its_aid())
            if set(ldm.ldm_service.get_data_consumer_its_aid()) != consumers:
                res.violation(f"C12:consumer-registry-changed-by-{kind}", f"registry {sorted(ldm.ldm_service.get_data_consumer_its_aid())}, model {sorted(consumers)}", ctx)
                consumers = set(ldm.ldm_service.get_data_consumer_its_aid())
            expected_recs = []
            for oid, o in list(objs.items()):
                if oid in lost:
                    continue
                alt = {**o["rec"], "dataObject": o["_maybe"]} if "_maybe" in o else None
                present = o["rec"] in got or (alt is not None and alt in got)
                if alt is not None and alt in got and o["rec"] not in got:
                    o["rec"] = alt            # a refused update took effect: reported above, follow it
                    res.violation("C12:refused-update-changed-the-object", f"object {oid}", ctx)
                o.pop("_maybe", None)
                if now_its < o["expire"] - 1000:
                    if not present:
                        why = "at-ldm-position-after-maintenance" if o["at_ldm"] else f"after-{kind}"
                        res.violation(f"C12:live-object-not-returned[{why}]", f"object {oid} (type {o['type']}, expires in {(o['expire'] - now_its) / 1000:.1f} s) is missing from the unfiltered query", ctx)
                        lost[oid] = why
                    else:
                        expected_recs.append(o["rec"])
                elif now_its > o["expire"] + 1000 and last_maint_its > o["expire"] + 1000 and last_maint_step > o["step"]:
                    res.count("expiry_gone_checked")
                    if present:
                        res.violation("C12:expired-object-returned-after-maintenance", f"object {oid} expired {(now_its - o['expire']) / 1000:.1f} s ago, maintenance ran since", ctx)
                    objs.pop(oid)
                elif present:
                    expected_recs.append(o["rec"])
                else:
                    objs.pop(oid)       # expired and collected (allowed)
            # nothing else may be stored
            for g in got:
                if g not in expected_recs:
                    if any(l for l in lost.values()) or g in orphans:
                        continue
                    res.violation(f"C12:unexpected-object-returned[after-{kind}]", f"{str(g)[:200]}", ctx)
                    break
    finally:
        clock.uninstall()
        if tmp:
            shutil.rmtree(tmp, ignore_errors=True)


def run_shard(spec, res):
    rng = random.Random(spec["seed"])
    for k in range(spec["cases"]):
        c = gen(rng, spec["maxlen"])
        if spec.get("db"):
            c["db"] = spec["db"]
        run_case(c, res)
        res.case(repr(c))
        if k == 0:
            res.sample({"db": c["db"], "ops": c["ops"][:12]})


def shards(tier, seed):
    if tier == "thorough":
        return ([{"seed": seed * 53 + i, "cases": 2400, "maxlen": 300} for i in range(14)] +
                [{"seed": seed * 59 + i, "cases": 150, "maxlen": 80, "db": "TinyDB"} for i in range(2)])
    return ([{"seed": seed * 53 + i, "cases": 55, "maxlen": 120} for i in range(7)] +
            [{"seed": seed * 59, "cases": 12, "maxlen": 40, "db": "TinyDB"}])


def replay(case, res):
    run_case(case, res)
