"""C06 -- multi-hop packets: at-most-once delivery and forwarding, shrinking hop budget, flood termination.

  A  one real station (with real neighbours) receives streams of reference-built TSB/GBC/GAC/GUC/LS packets from several
     phantom sources with exact duplicates, late replays inside/outside the duplicate-detection window, SN wrap, every
     received RHL class, DPL lengths 1..16, SIMPLE and CBF (virtual timers fired at varied points relative to the
     duplicate).  An offline checker over (rx frame, indications, tx frames) keyed by (SO, SN) decides at-most-once
     delivery/forwarding, own-address handling, byte equality of the forwarded copy (RHL-1, DE PV refresh) and RHL 0/1.
  B  floods through 3-8 real stations (line / ring / mesh) re-broadcasting to each other: per station at most one
     delivery and one transmission per packet, every transmitted copy one hop lower than a received one, a buffered CBF
     copy never sent after a duplicate was overheard, and the flood stops within MHL x stations ether rounds.
"""
from __future__ import annotations

import random

from vf.ref import wire as W

PROPERTY = "C06"
LEVEL = "exploration"
RULE = ("A: packet histories at one station (distinct by hash of the event list); B: flood scenarios (topology, algorithm, packet type, "
        "hop limit, origin); non-trivial = at least one duplicate or forward was observed and judged.")
ASSUMPTIONS = ["a replay outside the DPL window may legitimately be delivered/forwarded again: the model tracks the ring exactly",
               "omitted forwards (PDR limit, area-size control, SCF stub) are allowed: at-most-once is an upper bound"]
REQUIRED_COUNTERS = ["A.histories_across_the_timestamp_wrap", "A.late_packets_with_old_source_timestamp", "A.cbf_rebuffer_judged", "A.forward_copies_compared[no-neighbour,scf]", "A.cbf_overheard_judged", "A.cbf_overheard_after_leaving_the_area", "A.duplicates_judged", "A.forward_copies_compared", "A.rhl01_judged", "A.own_address_judged", "B.floods",
                     "B.station_packet_pairs", "B.cbf_overheard_judged"]

KINDS = ("tsb", "gbc_in", "gbc_out", "gac_in", "gac_out", "guc_other", "guc_me", "ls_req_other", "ls_rep_other")
MY_LAT, MY_LON = 415000000, 21000000


def mk_packet(kind, sn, rhl, so_pv, me, de, t_tst, body, scf=0):
    tc0 = {"scf": scf, "co": 0, "id": 3}
    bh = {"version": 1, "nh": 1, "lt_mult": 6, "lt_base": 2, "rhl": rhl}
    ch = {"nh": 2, "tc": tc0, "mobile": 1, "pl": len(body), "mhl": 255}
    x = {"sn": sn, "so_pv": so_pv}
    if kind == "tsb":
        ch.update(ht=W.HT_TSB, hst=1)
    elif kind in ("gbc_in", "gbc_out", "gac_in", "gac_out"):
        ch.update(ht=W.HT_GBC if kind.startswith("gbc") else W.HT_GAC, hst=0)
        if kind.endswith("_in"):
            x["area"] = {"lat": MY_LAT, "lon": MY_LON, "a": 300, "b": 300, "angle": 0}
        else:
            x["area"] = {"lat": MY_LAT + 400000, "lon": MY_LON, "a": 300, "b": 300, "angle": 0}     # ~4.4 km north
    elif kind in ("guc_other", "guc_me"):
        ch.update(ht=W.HT_GUC, hst=0)
        x["de_pv"] = me if kind == "guc_me" else de
    elif kind == "ls_req_other":
        ch.update(ht=W.HT_LS, hst=0, nh=0, pl=0)
        x["req_addr"] = de["addr"]
        body = b""
    elif kind == "ls_rep_other":
        ch.update(ht=W.HT_LS, hst=1, nh=0, pl=0)
        x["de_pv"] = de
        body = b""
    return W.enc_packet(bh, ch, x, body)


def gen_a(rng):
    nsrc = rng.randrange(1, 4)
    dpl = rng.choice((1, 2, 8, 8, 16))
    ev = []
    sn = {i: rng.choice((0, 5, 65530, 65534, rng.randrange(65536))) for i in range(nsrc)}
    fresh = []
    seen_fresh = set()
    for _ in range(rng.randrange(4, 40)):
        r = rng.random()
        if r < 0.2:
            ev.append({"e": "adv", "dt": rng.choice((0.0005, 0.002, 0.02, 0.06, 0.11, 0.3))})   # total << itsGnLifetimeLocTE
        elif r < 0.5 and fresh:
            # duplicate / replay of an earlier packet: most recent ones (inside the window) or any (maybe outside)
            idx = len(fresh) - 1 - min(len(fresh) - 1, rng.choice((0, 0, 1, 2, dpl - 1, dpl, dpl + 1, rng.randrange(len(fresh)))))
            ev.append({"e": "dup", "of": max(0, idx), "rhl": rng.choice((None, None, 0, 1, 2, 7))})
        else:
            src = rng.randrange(nsrc) if rng.random() > 0.08 else "self"
            kind = rng.choice(KINDS)
            if src != "self":
                sn[src] = (sn[src] + rng.choice((1, 1, 1, 2))) % 65536
            ev.append({"e": "pkt", "src": src, "kind": kind, "sn": sn[src] if src != "self" else rng.randrange(65536),
                       "rhl": rng.choice((0, 1, 2, 2, 3, 10, 255, rng.randrange(256))), "de": rng.choice(("nb_newer", "nb_older", "nb_equal", "far")),
                       "plen": rng.choice((0, 5, 200)), "overhear": rng.random() < 0.4,
                       # the station gets a position fix that takes it out of the destination area while its copy waits in the CBF buffer
                       "move_out": rng.random() < 0.35,
                       # store-carry-forward bit of the traffic class (matters when the forwarder has no neighbour)
                       "scf": int(rng.random() < 0.3),
                       # a late packet: its source timestamp is older than the location-table lifetime (the source is already
                       # known through a fresh packet, so its entry -- and duplicate list -- stay alive)
                       "old_tst": src != "self" and src in seen_fresh and rng.random() < 0.2})
            if src != "self" and not ev[-1]["old_tst"]:
                seen_fresh.add(src)
            fresh.append(len(ev) - 1)
    return {"part": "A", "alg": rng.choice((1, 2)), "dpl": dpl, "events": ev, "src_inside": False, "has_nb": rng.random() < 0.7,
            # the whole history is laid across the roll-over of the 32-bit millisecond timestamp (every 49.7 days)
            "near_wrap_ms": rng.choice((None, None, None, 1500, 4000, 9000))}


def run_a_case(c, res):
    from vf.gnharness import World, mid_of
    from vf.vclock import tst_of
    from flexstack.geonet.mib import AreaForwardingAlgorithm
    t0 = None
    if c.get("near_wrap_ms"):
        # first roll-over after the default epoch of the harness: TST = (t - 2004-01-01 - 5 s leap) ms mod 2^32
        from vf import vclock as VC
        k_ = int((VC.DEFAULT_T0 - 1072915195) * 1000) // (1 << 32) + 1
        t0 = 1072915195 + (k_ * (1 << 32) - c["near_wrap_ms"]) / 1000.0
        res.count("A.histories_across_the_timestamp_wrap")
    with World(t0) as w:
        A = w.add("A", mid_of(1), lat=MY_LAT, lon=MY_LON, ports=(2001,),
                  mib_over={"itsGnAreaForwardingAlgorithm": AreaForwardingAlgorithm(c["alg"]), "itsGnDPLLength": c["dpl"]})
        N = w.add("N", mid_of(2), lat=MY_LAT + 900, lon=MY_LON + 900, ports=(2001,))      # a real neighbour (also the 'nb' destination)
        has_nb = c.get("has_nb", True)
        if has_nb:
            N.router.gn_data_request_beacon()        # otherwise the forwarder knows no neighbour at all
        w.settle()
        n_tst = N.router.ego_position_vector.tst.msec
        me = {"addr": {"m": 0, "st": 5, "mid": mid_of(1)}, "tst": 1, "lat": MY_LAT, "lon": MY_LON}
        # N must stay quiet afterwards: detach it from the ether so that only A's behaviour is observed
        w.ether.nodes.pop("N")
        w.clock.advance(1.0)
        model = {}     # src -> ring (list) of SNs most recently accepted
        pk = {}        # event index -> dict(bytes, src, sn, kind, ...)
        for i, ev in enumerate(c["events"]):
            ctx = {**{k: v for k, v in c.items() if k != "events"}, "events": c["events"][:i + 1]}
            if ev["e"] == "adv":
                n0 = len(w.ether.wire)
                w.clock.advance(ev["dt"])
                w.settle()
                continue
            now = w.clock.now()
            if ev["e"] == "pkt":
                src = ev["src"]
                mid = mid_of(1) if src == "self" else mid_of(50 + src)
                if ev.get("old_tst"):
                    res.count("A.late_packets_with_old_source_timestamp")
                so_pv = {"addr": {"m": 0, "st": 5, "mid": mid}, "tst": tst_of(now - (27.0 if ev.get("old_tst") else 0.2)), "lat": MY_LAT - 500000 - 1000 * (0 if src == "self" else src),
                         "lon": MY_LON, "pai": 1, "s": 0, "h": 0}
                if ev["de"] == "far":
                    de = {"addr": {"m": 0, "st": 5, "mid": mid_of(99)}, "tst": 77, "lat": MY_LAT + 5000, "lon": MY_LON + 5000}
                else:
                    de = {"addr": {"m": 0, "st": 5, "mid": mid_of(2)}, "tst": (n_tst + {"nb_older": 5000, "nb_newer": -5000, "nb_equal": 0}[ev["de"]]) % (1 << 32),
                          "lat": MY_LAT + 1, "lon": MY_LON + 1}
                body = b"\x07\xd1\x00\x00" + bytes([i & 0xFF]) * ev["plen"]
                raw = mk_packet(ev["kind"], ev["sn"], ev["rhl"], so_pv, me, de, 0, body, scf=ev.get("scf", 0))
                pk[i] = {"raw": raw, "src": src, "sn": ev["sn"], "kind": ev["kind"], "de": ev["de"]}
                p = pk[i]
                rhl = ev["rhl"]
            else:
                if not pk:
                    continue
                p = pk[sorted(pk)[min(ev["of"], len(pk) - 1)]]       # 'of' indexes the fresh packets in order of appearance
                raw = p["raw"]
                if ev["rhl"] is not None:
                    raw = raw[:3] + bytes([ev["rhl"]]) + raw[4:]
                rhl = raw[3]
            src, sn_, kind = p["src"], p["sn"], p["kind"]
            ind0, tx0 = len(A.gn_ind), len(w.ether.wire)
            nerr = len(w.ether.errors)
            w.ether.inject("A", raw)
            w.settle()
            if c["alg"] == 1:
                pass
            new_ind = A.gn_ind[ind0:]
            new_tx = [pp for (_, _, s, pp) in w.ether.wire[tx0:] if s == "A"]
            if len(w.ether.errors) > nerr:
                e = w.ether.errors[-1][3]
                res.violation(f"C06:reception-raises-{type(e).__name__}[{kind}]", f"{e!r}", ctx)
                continue
            # ------------------------------------------------------------ judge
            if src == "self":
                res.count("A.own_address_judged")
                if new_ind or new_tx:
                    res.violation(f"C06:own-address-packet-processed[{kind}]", f"{len(new_ind)} indications, {len(new_tx)} transmissions for a packet bearing the station's own address", ctx)
                continue
            ring = model.setdefault(src, [])
            is_dup = sn_ in ring
            if is_dup:
                res.count("A.duplicates_judged")
                if new_ind:
                    res.violation(f"C06:duplicate-delivered[{kind}]", f"(SO {src}, SN {sn_}) is in the duplicate window {ring} but was indicated again", ctx)
                if new_tx:
                    res.violation(f"C06:duplicate-forwarded[{kind}]", f"(SO {src}, SN {sn_}) is in the duplicate window but caused {len(new_tx)} transmissions", ctx)
                continue
            ring.append(sn_)
            del ring[:-c["dpl"]]
            res.count("A.fresh_judged")
            if len(new_ind) > 1:
                res.violation(f"C06:delivered-more-than-once[{kind}]", f"{len(new_ind)} indications for one packet", ctx)
            want_deliver = kind in ("tsb", "gbc_in", "gac_in", "guc_me")
            if want_deliver and not new_ind:
                res.violation(f"C06:fresh-packet-not-delivered[{kind}]", f"(SO {src}, SN {sn_}) RHL {rhl}", ctx)
            if not want_deliver and new_ind:
                res.violation(f"C06:delivered-although-not-addressed[{kind}]", f"{kind}", ctx)
            # forwarding happens at once for everything except CBF area forwarding (gbc_in under CBF)
            deferred = c["alg"] == 2 and kind == "gbc_in"
            if deferred and new_tx:
                # forwarded at once instead of contending (e.g. the no-neighbour / SCF branch): judged like any immediate
                # forward; the contention time is still waited for, so that a second transmission would be seen
                deferred = False
                w.clock.advance(0.2)
                w.settle()
                new_tx = [pp for (_, _, s, pp) in w.ether.wire[tx0:] if s == "A"]
                res.count("A.cbf_configured_but_forwarded_at_once")
            if deferred and ev.get("overhear") and rhl >= 2:
                # a duplicate is overheard while the copy waits in the CBF buffer: it must never be sent
                w.clock.advance(0.0004)
                moved = bool(ev.get("move_out"))
                if moved:
                    A.set_position(MY_LAT + 300000, MY_LON)       # ~3.3 km north: outside the 300 m destination circle
                    res.count("A.cbf_overheard_after_leaving_the_area")
                w.ether.inject("A", raw[:3] + bytes([max(1, rhl - 1)]) + raw[4:])
                w.settle()
                w.clock.advance(0.3)
                w.settle()
                if moved:
                    A.set_position(MY_LAT, MY_LON)
                res.count("A.cbf_overheard_judged")
                late_tx = [pp for (_, _, s, pp) in w.ether.wire[tx0:] if s == "A"]
                if late_tx:
                    res.violation("C06:cbf-buffered-copy-sent-after-duplicate-overheard" + ("[station-left-the-area-meanwhile]" if moved else ""),
                                  f"(SO {src}, SN {sn_}) buffered, duplicate overheard 0.4 ms later, still transmitted", ctx)
                if len(A.gn_ind) - ind0 > 1:
                    res.violation(f"C06:duplicate-delivered[{kind}]", "overheard duplicate was indicated", ctx)
                continue
            if deferred:
                # let the contention timer run with nothing overheard
                w.clock.advance(0.2)
                w.settle()
                new_tx = [pp for (_, _, s, pp) in w.ether.wire[tx0:] if s == "A"]
            if rhl in (0, 1):
                res.count("A.rhl01_judged")
                if new_tx:
                    res.violation(f"C06:forwarded-with-received-rhl-{rhl}[{kind}]", f"transmitted {new_tx[0][:4].hex()}... after receiving RHL {rhl}", ctx)
                continue
            if kind in ("gac_in", "guc_me"):
                if new_tx:
                    res.violation(f"C06:forwarded-although-final-destination[{kind}]", f"{len(new_tx)} transmissions", ctx)
                continue
            if len(new_tx) > 1:
                res.violation(f"C06:forwarded-more-than-once[{kind}]", f"{len(new_tx)} transmissions for one packet", ctx)
            if not new_tx:
                res.count("A.forward_omitted")
                continue
            got = new_tx[0]
            want = raw[:3] + bytes([rhl - 1]) + raw[4:]
            res.count("A.forward_copies_compared")
            if not has_nb:
                res.count("A.forward_copies_compared[no-neighbour]")
                if W.dec_packet(raw)["common"]["tc"]["scf"]:
                    res.count("A.forward_copies_compared[no-neighbour,scf]")
            if has_nb and kind in ("guc_other", "ls_rep_other") and p["de"] == "nb_newer":
                # DE is a neighbour whose table PV is strictly newer than the packet's DE PV: refreshed from the table
                npv = N.router.ego_position_vector
                spv = W.enc_spv({"addr": {"m": 0, "st": 5, "mid": mid_of(2)}, "tst": npv.tst.msec, "lat": npv.latitude, "lon": npv.longitude})
                want = want[:12 + 28] + spv + want[12 + 48:]
                res.count("A.de_pv_refresh_judged")
            if got != want:
                try:
                    from checks.c02_wire_format import diff_fields, leaves
                    names = leaves(diff_fields(W.dec_packet(got), W.dec_packet(want))) if len(got) == len(want) else ["<length>"]
                except Exception:  # noqa
                    names = ["<unparseable>"]
                for nm in names:
                    res.violation(f"C06:forwarded-copy-differs[{kind}][{nm}][de={p['de']}]", f"received {raw.hex()} forwarded {got.hex()} expected {want.hex()}", ctx)


def run_rebuffer_case(c, res):
    """Contention-based forwarding, directed: packet P is buffered, its duplicate is overheard (the copy is dropped), other
    packets of the same source push P's sequence number out of a short duplicate list, then P arrives again and is
    buffered anew -- all within one contention window.  The first instance was cancelled: the only transmission of P
    allowed is the SECOND instance's copy (one hop below what was received the second time), exactly once."""
    from vf.gnharness import World, mid_of
    from vf.vclock import tst_of
    from flexstack.geonet.mib import AreaForwardingAlgorithm
    with World() as w:
        A = w.add("A", mid_of(1), lat=MY_LAT, lon=MY_LON, ports=(2001,),
                  mib_over={"itsGnAreaForwardingAlgorithm": AreaForwardingAlgorithm.CBF, "itsGnDPLLength": c["dpl"]})
        N = w.add("N", mid_of(2), lat=MY_LAT + 900, lon=MY_LON + 900, ports=(2001,))
        N.router.gn_data_request_beacon()
        w.settle()
        w.ether.nodes.pop("N")
        w.clock.advance(1.0)
        me = {"addr": {"m": 0, "st": 5, "mid": mid_of(1)}, "tst": 1, "lat": MY_LAT, "lon": MY_LON}
        so_pv = {"addr": {"m": 0, "st": 5, "mid": mid_of(60)}, "tst": tst_of(w.clock.now() - 0.2), "lat": MY_LAT - 2000, "lon": MY_LON, "pai": 1, "s": 0, "h": 0}
        tx0 = len(w.ether.wire)

        def pkt(sn, rhl, tag):
            return mk_packet("gbc_in", sn, rhl, so_pv, me, me, 0, b"\x07\xd1\x00\x00" + tag)
        step = c["gap_ms"] / 1000.0
        w.ether.inject("A", pkt(100, c["rhl_a"], b"P"))
        w.settle()
        w.clock.advance(step)
        w.ether.inject("A", pkt(100, max(1, c["rhl_a"] - 1), b"P"))          # overheard duplicate: instance 1 is cancelled
        w.settle()
        for j in range(c["dpl"]):                                          # pushes SN 100 out of the duplicate list
            w.clock.advance(step)
            w.ether.inject("A", pkt(101 + j, 7, b"Q%d" % j))
            w.settle()
        w.clock.advance(step)
        early = [pp for (_, _, s_, pp) in w.ether.wire[tx0:] if s_ == "A"]
        w.ether.inject("A", pkt(100, c["rhl_b"], b"P"))                     # P again: a new packet as far as the station can tell
        w.settle()
        w.clock.advance(0.5)
        w.settle()
        if w.ether.errors:
            e = w.ether.errors[0][3]
            res.violation(f"C06:reception-raises-{type(e).__name__}[gbc_in]", f"{e!r}", c)
            return
        res.count("A.cbf_rebuffer_judged")
        sent_p = [pp for (_, _, s_, pp) in w.ether.wire[tx0:] if s_ == "A" and pp.endswith(b"P")]
        if any(pp.endswith(b"P") for pp in early):
            res.violation("C06:cbf-buffered-copy-sent-after-duplicate-overheard", "the cancelled first instance was transmitted before the packet arrived again", c)
            return
        rhls = [pp[3] for pp in sent_p]
        if len(sent_p) > 1:
            res.violation("C06:forwarded-more-than-once[gbc_in][re-buffered-after-cancellation]", f"{len(sent_p)} transmissions, RHLs {rhls}", c)
        elif len(sent_p) == 1 and rhls[0] != c["rhl_b"] - 1:
            res.violation("C06:cbf-cancelled-copy-transmitted[re-buffered-after-cancellation]",
                          f"transmitted RHL {rhls[0]}: the copy of the cancelled first instance (received RHL {c['rhl_a']}), not the one buffered anew (received RHL {c['rhl_b']})", c)
        elif not sent_p:
            res.violation("C06:cbf-rebuffered-copy-never-transmitted[re-buffered-after-cancellation]",
                          "the second instance was removed from the buffer without being transmitted and without a duplicate", c)


def run_a(spec, res):
    rng = random.Random(spec["seed"])
    for k in range(spec["cases"]):
        if k % 6 == 5:
            cr = {"part": "A-rebuffer", "dpl": rng.choice((1, 2, 3)), "rhl_a": rng.choice((5, 9, 200)), "rhl_b": rng.choice((3, 4, 120)), "gap_ms": rng.choice((0.5, 1, 3))}
            run_rebuffer_case(cr, res)
            res.case(repr(cr))
        c = gen_a(rng)
        run_a_case(c, res)
        res.case(repr(c))
        if k == 0:
            res.sample({**c, "events": c["events"][:8]})


# ------------------------------------------------------------------------------------------ B
def gen_b(rng):
    n = rng.randrange(3, 9)
    return {"part": "B", "n": n, "topo": rng.choice(("line", "ring", "mesh", "mesh")), "alg": rng.choice((1, 2, 2)), "kind": rng.choice(("gbc", "gbc", "tsb", "ls_req")),
            "hop": rng.choice((1, 2, 3, 5, 10, 40)), "origin": rng.randrange(n), "spread": rng.choice((30, 150, 400)), "npk": rng.choice((1, 1, 2, 3))}


def run_b_case(c, res):
    from vf.gnharness import World, gn_request, area, mid_of
    from vf.vclock import tst_of
    from vf.ref import geo as G
    from flexstack.geonet.mib import AreaForwardingAlgorithm
    from flexstack.geonet.service_access_point import CommonNH
    n = c["n"]
    rng = random.Random(repr(sorted(c.items())))
    with World() as w:
        S = []
        for i in range(n):
            la, lo = G.destination(MY_LAT / 1e7, MY_LON / 1e7, rng.uniform(-c["spread"], c["spread"]), c["spread"] * i * 0.7)
            S.append(w.add(f"S{i}", mid_of(i + 1), lat=int(la * 1e7), lon=int(lo * 1e7), ports=(2001,),
                           mib_over={"itsGnAreaForwardingAlgorithm": AreaForwardingAlgorithm(c["alg"])}))
        if c["topo"] in ("line", "ring"):
            for i in range(n - 1):
                w.ether.connect(f"S{i}", f"S{i + 1}")
            if c["topo"] == "ring":
                w.ether.connect(f"S{n - 1}", "S0")
        for s_ in S:
            s_.router.gn_data_request_beacon()
        w.settle()
        w.clock.advance(1.0)
        # per-station receive log with times (overheard duplicates matter for CBF)
        rxlog = {f"S{i}": [] for i in range(n)}
        w.ether.on_rx = lambda name, pkt: rxlog[name].append((w.clock.now(), len(w.ether.wire), pkt))
        mark = len(w.ether.wire)
        o = S[c["origin"]]
        ids = []
        for k in range(c["npk"]):
            if c["kind"] == "gbc":
                o.router.gn_data_request(gn_request("gbc", b"\x07\xd1\x00\x00flood%d" % k, ar=area(MY_LAT, MY_LON + 2000 * n, 1500, 1500, 0), nh=CommonNH.BTP_B, hop=c["hop"]))
                ids.append(("S", o.router.sequence_number))
            else:
                pv = {"addr": {"m": 0, "st": 5, "mid": mid_of(77)}, "tst": tst_of(w.clock.now()), "lat": MY_LAT, "lon": MY_LON, "pai": 1, "s": 0, "h": 0}
                hop = max(1, c["hop"])
                if c["kind"] == "tsb":
                    pkt = W.enc_packet({"version": 1, "nh": 1, "lt_mult": 6, "lt_base": 2, "rhl": hop},
                                       {"nh": 2, "ht": W.HT_TSB, "hst": 1, "tc": {"scf": 0, "co": 0, "id": 0}, "mobile": 1, "pl": 9, "mhl": hop},
                                       {"sn": 100 + k, "so_pv": pv}, b"\x07\xd1\x00\x00floo%d" % k)
                else:
                    pkt = W.enc_packet({"version": 1, "nh": 1, "lt_mult": 6, "lt_base": 2, "rhl": hop},
                                       {"nh": 0, "ht": W.HT_LS, "hst": 0, "tc": {"scf": 0, "co": 0, "id": 0}, "mobile": 1, "pl": 0, "mhl": hop},
                                       {"sn": 100 + k, "so_pv": pv, "req_addr": {"m": 0, "st": 5, "mid": mid_of(88)}})
                w.ether.inject(o.name, pkt)
                ids.append(("P", 100 + k))
        # run to quiescence: rounds are counted; CBF timers fire in virtual time
        rounds = 0
        mhl = (c["hop"] if c["hop"] > 1 else 10) if c["kind"] == "gbc" else max(1, c["hop"])
        bound = mhl * n + n + 5
        for _ in range(bound + 50):
            r = w.settle(max_rounds=bound + 50)
            if r == -1:
                res.violation("C06:flood-does-not-terminate", f"more than {bound + 50} ether rounds", c)
                return
            rounds += r
            nd = w.clock.next_due()
            if nd is None or nd > w.clock.now() + 0.5:
                break
            w.clock.run_until(nd)
        w.ether.on_rx = None
        res.count("B.floods")
        if rounds > bound:
            res.violation("C06:flood-exceeds-hop-budget-rounds", f"{rounds} rounds > MHL {mhl} x {n} stations", c)
        if w.ether.errors:
            e = w.ether.errors[0][3]
            res.violation(f"C06:reception-raises-{type(e).__name__}[flood]", f"{e!r}", c)
            return

        def ident(pkt):
            try:
                p = W.dec_packet(pkt)
            except Exception:  # noqa
                return None
            if "sn" not in p["ext"]:
                return None
            return (p["ext"]["so_pv"]["addr"]["mid"], p["ext"]["sn"], p["common"]["ht"])
        for i, s_ in enumerate(S):
            name = s_.name
            tx = [(seq, t, pkt) for (seq, t, snd, pkt) in w.ether.wire[mark:] if snd == name]
            rx = rxlog[name]
            per = {}
            for (t, wl, pkt) in rx:
                k = ident(pkt)
                if k:
                    per.setdefault(k, {"rx": [], "tx": []})["rx"].append((t, wl, pkt))
            for (seq, t, pkt) in tx:
                k = ident(pkt)
                if k:
                    per.setdefault(k, {"rx": [], "tx": []})["tx"].append((t, seq, pkt))
            for k, d in per.items():
                res.count("B.station_packet_pairs")
                own = k[0] == mid_of(i + 1)
                ntx_allowed = 1
                if len(d["tx"]) > ntx_allowed:
                    res.violation(f"C06:station-transmits-packet-more-than-once[{c['kind']}][alg={c['alg']}]", f"{name} sent (SN {k[1]}) {len(d['tx'])} times", c)
                if own:
                    # the originator: must never forward or deliver what comes back
                    if len(d["tx"]) > 1:
                        res.violation("C06:originator-reforwards-own-packet", f"{name}", c)
                    continue
                if d["tx"] and not d["rx"]:
                    res.violation("C06:transmission-without-reception", f"{name} (SN {k[1]})", c)
                    continue
                for (t, seq, pkt) in d["tx"]:
                    prior = [r for r in d["rx"] if r[1] <= seq]
                    rhls = {r[2][3] for r in prior}
                    if pkt[3] + 1 not in rhls:
                        res.violation(f"C06:forwarded-rhl-not-one-below-a-received-copy[{c['kind']}]", f"{name} sent RHL {pkt[3]} having received {sorted(rhls)}", c)
                    if any(r[2][3] in (0, 1) for r in prior) and len(prior) == 1:
                        res.violation(f"C06:forwarded-with-received-rhl-0-or-1[{c['kind']}]", f"{name}", c)
                    # CBF: first reception buffers; a duplicate overheard before the timer fires must cancel
                    if c["alg"] == 2 and c["kind"] == "gbc" and len(prior) >= 2:
                        res.count("B.cbf_overheard_judged")
                        res.violation("C06:cbf-buffered-copy-sent-after-duplicate-overheard",
                                      f"{name} buffered (SN {k[1]}) at t={prior[0][0]:.4f}, overheard a duplicate at t={prior[1][0]:.4f} and still transmitted at t={t:.4f}", c)
                    elif c["alg"] == 2 and c["kind"] == "gbc":
                        res.count("B.cbf_overheard_judged")
            delivered = {}
            for (t, ind) in s_.gn_ind:
                key = bytes(ind.data)
                delivered[key] = delivered.get(key, 0) + 1
            for key, cnt in delivered.items():
                if cnt > 1:
                    res.violation(f"C06:flood-delivered-more-than-once[{c['kind']}]", f"{name} delivered {key!r} {cnt} times", c)
            if i == c["origin"] and c["kind"] == "gbc" and s_.gn_ind:
                res.violation("C06:originator-delivers-own-packet", f"{name}", c)


def run_b(spec, res):
    rng = random.Random(spec["seed"])
    for k in range(spec["cases"]):
        c = gen_b(rng)
        run_b_case(c, res)
        res.case(repr(c))
        if k == 0:
            res.sample(c)


def shards(tier, seed):
    if tier == "thorough":
        return ([{"part": "A", "seed": seed * 41 + i, "cases": 2000} for i in range(16)] +
                [{"part": "B", "seed": seed * 43 + i, "cases": 700} for i in range(16)])
    return ([{"part": "A", "seed": seed * 41 + i, "cases": 60} for i in range(6)] +
            [{"part": "B", "seed": seed * 43 + i, "cases": 30} for i in range(6)])


def run_shard(spec, res):
    (run_a if spec["part"] == "A" else run_b)(spec, res)


def replay(case, res):
    if case.get("part") == "A-rebuffer":
        run_rebuffer_case(case, res)
        return
    (run_a_case if case.get("part") == "A" else run_b_case)(case, res)
