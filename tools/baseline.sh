#!/bin/bash
# Runs the repository's own suite with the guard OFF and compares with BASELINE.json's stable_pass list.
out=$(mktemp -d)
cd /repo && env -u FLEXSTACK_VERIF /venv/bin/python -m pytest -q -p no:cacheprovider --timeout=900 --continue-on-collection-errors --junitxml=$out/j.xml >$out/log 2>&1
python3 - "$out/j.xml" <<'PY'
import json,sys,xml.etree.ElementTree as ET
base=json.load(open('/root/.vp/BASELINE.json'))
stable=set(base['stable_pass'])
passed=set()
for tc in ET.parse(sys.argv[1]).getroot().iter('testcase'):
    name=f"{tc.get('classname')}::{tc.get('name')}"
    if not any(ch.tag in('failure','error','skipped') for ch in tc): passed.add(name)
missing=sorted(stable-passed)
print(f"baseline stable={len(stable)} passed_now={len(passed)} stable_now_failing={len(missing)}")
for m in missing[:20]: print("  FAILING:",m)
sys.exit(1 if missing else 0)
PY
rc=$?
rm -rf $out
exit $rc
