import json
T=open('/tmp/wt/PROMPT_TEMPLATE.txt').read()
T=T.replace("(use `git stash` then `git stash pop`; at the end the change must again be applied and uncommitted)","(do NOT use `git stash` or `pkill`; instead `git diff -- src > my.patch && git apply -R my.patch`, run the demo, then `git apply my.patch`; at the end the change must again be applied and uncommitted)")
T=T.replace("Test suite (930 tests pass on the unchanged tree, takes a few minutes):","Test suite (the full suite takes 6-15 minutes - do NOT run all of it: TIME IS SHORT, you have about 8 minutes in total. Run only the test files of the package(s) you touched, e.g. `tests/flexstack/geonet`, once, in the foreground; the full suite will be run by us afterwards, so stay clear of behaviour that tests elsewhere obviously pin):")
T=T.replace("(a) full test suite with the change applied: report the pass/fail counts;","(a) the tests of the touched package(s) with the change applied: report the pass/fail counts;")
T=T.replace("--- END PROPERTY ---","--- END PROPERTY ---\n\nKIND OF CHANGE. Many seeded faults already exist for this property (off-by-one, cache keys, stale state, locks, misplaced checks, error paths, life cycle, shared class-level state, aliasing, clock steps, iteration order). Yours must be of a DIFFERENT kind. Pick one and say in NOTES.md which:\n  (m) a configuration / MIB value or optional parameter that is rarely non-default, handled wrongly only when set;\n  (n) numeric representation: wrap-around, sign, unit conversion (ms vs s, 1/10 micro-degree, 0.01 m/s), float rounding or integer division, only wrong for some magnitudes;\n  (o) interaction of two features that are each fine alone (e.g. security with forwarding, buffering with lifetime, filter with order, subscription with deletion);\n  (p) capacity: a table / buffer / list at or beyond its configured size, or an empty one.")
for l in open('/verif/properties.jsonl'):
    p=json.loads(l)
    if p['id'] not in ('C01','C02','C05','C07','C09','C12'): continue
    wt=f"/tmp/wt/{p['id']}-r7"
    t=T.replace('@WT@',wt).replace('@PROP@',f"{p['id']} — {p['title']}\n\n{p['statement']}")
    open(wt+'/TASK.md','w').write(t)
print('ok')
