#!/bin/bash
# collect -> quick check of the own property -> verify (demo with/without, baseline suite)
p=$1; id=$p-agent7
cd /verif
python3 tools/seeded.py collect $id /tmp/wt/$p-r7 > /tmp/wt/$p.pipe.log 2>&1 || exit 1
python3 tools/seeded.py run $id >> /tmp/wt/$p.pipe.log 2>&1
python3 tools/seeded.py verify $id >> /tmp/wt/$p.pipe.log 2>&1
echo DONE >> /tmp/wt/$p.pipe.log
