import json
N3={
"C01-agent3":("GBC duplicate detection skipped (and the SN not recorded) when the receiver is inside the area and the area algorithm is CBF - two sites: router computes execute_dpd, location table honours it","a third station re-broadcasting the GBC packet (star or chain of real stations): every overheard copy is delivered again"),
"C02-agent3":("LS reply common header derived from the received LS request's common header","an LS request whose header differs from the replier's defaults (traffic class, hop budget): TC/MHL leak into the reply this station originates"),
"C03-agent3":("verification result cached per (ticket, hash of tbsData) - the signature is not part of the key","a genuine frame accepted first, then the same signed data with an altered/forged signature (history dependent)"),
"C04-agent3":("ValueError from the ECDSA backend (unsupported signature form named by the FRAME) handled by forgetting the signer's ticket","receiver has learnt ticket X; an unauthenticated frame with signer X and an unsupported signature choice; X's later digest-signed frames are rejected"),
"C05-agent3":("headerInfo built on a shared mutable default dict","a CAM carrying a P2PCD request signed first, then a DENM: inlineP2pcdRequest (forbidden) stays in the DENM header and receivers reject it; generationLocation leaks into later CAMs"),
"C06-agent3":("forwarded GBC keeps the received RHL in the no-neighbour/SCF branch (rename missed one site)","GBC with RHL >= 2, SCF bit set in the traffic class, forwarder without any neighbour entry"),
"C07-agent3":("GAC Annex D 'sender inside' test uses the SO PV of the packet instead of the location-table position of the sender","receiver outside the area whose table holds a strictly NEWER position of the source on the other side of the border (delayed GAC overtaken by a beacon)"),
"C08-agent3":("GBC handler updates the location table before duplicate address detection on the non-CBF / outside-area path","a GBC packet bearing the station's own address (its own packet forwarded back), receiver outside the area or SIMPLE area forwarding"),
"C09-agent3":("issue-permission PSID list cached per certificate; an unchanged caller extends the returned list with the application permissions","root with explicit issuing permissions, AA holding an application permission it may not issue, AA verified as a subject before a mis-issued ticket claiming that permission is offered"),
"C10-agent3":("location reports merged over the cached report instead of replacing it","a report lacking keys an earlier one had (3D -> 2D fix, standstill): the CAM carries the old speed/heading/altitude"),
"C11-agent3":("device data dicts shared with the VAM under construction when they are plain dicts","DeviceDataProvider configured with plain dicts; a report with track/speed, then one without: the VAM carries the earlier values instead of 'unavailable'"),
"C12-agent3":("IF.LDM.3 keeps a snapshot of registered providers that deregistration never shrinks","register, add (fills the snapshot), deregister, add again: accepted"),
"C13-agent3":("per-type-selection view cache in the Dictionary back-end, invalidated by insert/remove/delete but not by update","request for types T, update of one of those objects, the same T again with no insert/remove in between"),
"C14-agent3":("order attribute path resolved once from the first result element","subscription/request over several types ordered by an attribute whose path depends on the type (generationDeltaTime, stationType) with objects of both layouts stored"),
"C15-agent3":("_cbf_discard no longer cancels the timer (the timeout 'ignores unknown keys anyway')","copy buffered, discarded by a duplicate, the packet leaves a short duplicate list and is buffered again while the first timer is still pending. NOTE: exposed the genuine ABA defect fixed in 7296ded (timer already fired, not yet run); on the fixed tree this change no longer breaks the property"),
"C16-agent3":("DictionaryDataBase.remove scans for the record without the store lock","an insert/remove by another thread while delete or garbage collection iterates: RuntimeError, object stays"),
"C17-agent3":("reception drops a DENM older than the newest one of 'the same event' - keyed by sequence number only","two stations' events sharing a sequence number; the second station's DENM carries a lower reference time"),
"C18-agent3":("end of the leave notification became the last elif of the join chain","leave from passive, then a join accepted before the 1 s leave notification expired: the leave info is announced for 3.5+ s and carried into the next cluster"),
"C19-agent3":("gate keeper's t_pg is rewritten by refused packets too","admission, a refused packet while closed, then a delta update while closed: B.2 anchored on the refusal - gate closed > 1 s"),
"C20-agent3":("LS reply takes its maximum hop limit from the received LS request","requester and replier with different itsGnDefaultHopLimit: reply leaves with RHL != MHL (RHL > MHL is discarded by every receiver)"),
}
for k,(what,needs) in N3.items():
    p=f"/verif/seeded/{k}/meta.json"
    m=json.load(open(p)); m["change"]=what; m["needs_to_manifest"]=needs; m["round"]=3
    json.dump(m,open(p,"w"),indent=1)
print("ok3")
