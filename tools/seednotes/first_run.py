import json,glob
missed2={"C01","C02","C03","C06","C07","C09","C10","C11","C14","C17"}
missed3={"C02","C06","C07","C09","C10","C11","C13","C14","C15","C17"}
missed1={"C01","C14","C16","C17","C18"}
for p in glob.glob('/verif/seeded/*/meta.json'):
    m=json.load(open(p)); prop=m['id'][:3]
    r=m.get('round') or (3 if m['id'].endswith('3') else 2 if m['id'].endswith('2') else 1)
    m['round']=r
    if r > 3:
        continue
    m['first_run_caught']= prop not in {1:missed1,2:missed2,3:missed3}[r]
    json.dump(m,open(p,'w'),indent=1)
