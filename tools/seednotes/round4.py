import json
N4={
"C01-agent4":("GUC request to a destination with a pending LS lookup is sent directly once a PV of the destination is known","a second GUC while the lookup is pending and a frame of the destination overtaking the LS exchange: m3 overtakes the buffered m1, m2"),
"C02-agent4":("LongPositionVector.decode memoised on (GN_ADDR, TST)","two packets of one source with the same timestamp and different position/speed/heading (several fixes per second): the second is decoded with the first one's values"),
"C03-agent4":("signature check skipped when the incoming signature field equals the last accepted one of that ticket","a genuine frame accepted, then a copy with rewritten payload / signed header and the same signer and signature bytes"),
"C04-agent4":("beacon dispatch moved in front of the RHL > MHL check","a beacon whose RHL exceeds its MHL (one flipped bit): silently processed, phantom neighbour / newer PV left behind"),
"C05-agent4":("pending own-certificate request assigned from the LATEST received request list instead of latched","three stations: R requests S's certificate, then S verifies a bystander's CAM whose request list names someone else, then S signs: digest"),
"C06-agent4":("location-table expiry decided from the timestamp of the last packet (can move backwards)","fresh packet A of a source, a late packet B of the same source whose timestamp is older than the table lifetime, A's copy again: entry and duplicate list purged, A delivered and forwarded twice"),
"C07-agent4":("F memoised on (area, position) - the shape (circle/rectangle/ellipse) is not part of the key","two evaluations with the same centre, semi-axes, azimuth and position but different shape on one router"),
"C08-agent4":("refresh_table returns early when called again at the same millisecond","a packet whose PV is already older than the lifetime when it is stored: the second purge of new_*_packet is skipped, the outdated entry (and neighbour) stays"),
"C09-agent4":("verify caches the last ticket's permissions and validity window; the id is updated before a check that may return early","ticket A verified, ticket B rejected for its ITS-AID, then B with a permitted ITS-AID and a generation time outside B's but inside A's window"),
"C10-agent4":("dynamics reference of condition 1 stored before the CAM is sent","a CAM due because of a dynamics change is refused by the lower layers; the reference has moved, the due CAM is delayed until T_GenCamMax"),
"C11-agent4":("cached report becomes the union of all reports seen (copy + update)","a report lacking keys an earlier one carried: old altitude/heading/speed/position encoded under the new generationDeltaTime"),
"C12-agent4":("reactive maintenance guarded by a lock acquired non-blocking and released without try/finally","one maintenance pass raising inside an add: the lock stays held, no reactive pass ever runs again, expired objects are returned for ever"),
"C13-agent4":("TinyDB filter translation memoised by hash(filter)","two filters identical except for reference values that hash alike in CPython (-1 / -2, x / x + 2^61-1) on one TinyDB instance"),
"C14-agent4":("multiplicity check moved behind the interval bookkeeping in process_notifications","multiplicity >= 2, interval of seconds: the interval elapses with too few matches, enough arrive later - withheld for another interval"),
"C15-agent4":("ls_pending cleared outside the LS lock in the LS reply handler","a GUC request to the same destination queued between the buffer flush and the clearing of the flag: neither sent nor dropped"),
"C16-agent4":("end-of-pass cleanup removes every subscription the deregistered application holds at that moment","consumer deregisters during the pass (after the snapshot), registers again and subscribes anew before the pass ends: the new subscription is deleted"),
"C17-agent4":("sequence number of an event whose first DENM could not be handed over is 'given back' without checking that it was the last one handed out","event A's first hand-over refused by the lower layers while event B already holds the next number; two later events: D repeats B's action identifier"),
"C18-agent4":("leader-lost detection reads the nearby-cluster table entry (which expires after 5 s) instead of the leader timer","no update() between 2 s and 5 s after the leader's last cluster VAM (paused position source / clock jump): the entry is purged, the member stays passive for ever"),
"C19-agent4":("gate test uses math.isclose with its default relative tolerance","large timestamps (monotonic clock after weeks, epoch seconds): the gate opens early or never closes"),
"C20-agent4":("lifetime field cached per requested lifetime in a class-level dict; key None for 'MIB default'","two MIBs with different default lifetimes in one process: the second station's packets without a requested lifetime carry the first one's default"),
}
for k,(what,needs) in N4.items():
    p=f"/verif/seeded/{k}/meta.json"
    m=json.load(open(p)); m["change"]=what; m["needs_to_manifest"]=needs; m["round"]=4
    m["first_run_caught"]= k[:3] not in {"C06","C09","C12","C13","C16","C17"}
    json.dump(m,open(p,"w"),indent=1)
print("ok4")
