import json,os
N={
"C01-agent":("GUC request to a destination whose LS lookup is pending is sent at once as soon as a PV for it has been learnt from an unrelated frame, overtaking the requests still queued behind the lookup","a second GUC while the lookup is pending AND a frame of the destination (beacon/SHB) overtaking the LS exchange in between"),
"C02-agent":("LPV encoder merges PAI and speed into one 16-bit word without masking the speed","negative speed (reversing vehicle) with PAI = 0: the sign bits spill into PAI; also on forwarded SO PVs"),
"C03-agent":("verification result cached per (ticket, generationTime, signature) - the signed payload is not part of the key","a genuine frame must have verified first; afterwards the same envelope with a replaced payload is accepted (history dependent)"),
"C04-agent":("F is evaluated after DAD/DPD and the location-table update in gn_data_indicate_gbc","a GBC frame with a zero-sized area (a = 0): ZeroDivisionError is swallowed after the table/DPL were already updated, so the bad frame leaves state behind"),
"C05-agent":("inline P2PCD request handling returns early at the first digest that is neither the own ticket nor a held CA certificate","a request list in which the own HashedId3 comes after an unknown one (two unknown senders heard before the requester's next CAM)"),
"C06-agent":("duplicate packet list evicts before inserting","exactly itsGnDPLLength distinct SNs from one source, then a replay of the oldest one (still inside the window)"),
"C07-agent":("fast-path 'farther than max(a,b) from the centre is outside' in F","rectangle corners: points with distance between max(a,b) and sqrt(a^2+b^2) from the centre"),
"C08-agent":("neighbour/PDR refresh skipped when the received PV is not newer than the stored one","a beacon/SHB of S carrying the same or an older TST than a multi-hop packet of S processed before (several packets share one TST between GPS fixes)"),
"C09-agent":("generationTime compared with the validity period in whole seconds","generation time less than one second after the end of the ticket's validity"),
"C10-agent":("bounding-box pre-check (4 m in degrees of latitude for both axes) in front of the haversine position trigger","movement mainly east-west at higher latitude: more than 4 m travelled while the longitude difference is still inside the box - no other trigger (constant speed and heading, < 1 s)"),
"C11-agent":("white CAM template cached; the clone copies dicts and lists but not the tuples (CHOICE values) inside","a report WITHOUT speed/track/epd after a report with them (or a second station in the same process): the stale values of the shared template leak instead of 'unavailable'"),
"C12-agent":("time-validity garbage collection stops at the first still-valid object (assumes expiry order = insertion order)","a long-lived object stored before a short-lived one; maintenance after the short one has expired"),
"C13-agent":("missing-attribute guard removed from statement evaluation; and/or short-circuited per query","an 'or' filter whose first statement addresses an attribute the object lacks while the second is true (Dictionary back-end only)"),
"C14-agent":("multiplicity check moved behind the notification-interval bookkeeping","multiplicity >= 2 with an interval of seconds: the interval elapses while too few objects match, then enough arrive - the notification is withheld for another interval"),
"C15-agent":("LS pending check moved out of the LS lock","an LS reply processed between the pending check and the queueing of a second GUC request: the request lands in a buffer nobody flushes"),
"C16-agent":("existence check of update moved out of the database lock","delete completing between the check and the store of a concurrent update: the object is re-created"),
"C17-agent":("the DENM under construction kept in an instance attribute shared by all repetition threads","two overlapping events whose threads interleave between building and transmitting a DENM: action id / position of the other event"),
"C18-agent":("leader heartbeat refreshed by any cluster VAM advertising the joined cluster id","a foreign cluster with the same identifier in range while the real leader has gone silent: the passive member never times out"),
"C19-agent":("gate keeper stores the closed interval of the last admission and rescales that on every delta update","delta updated twice while the gate is closed after one admission (B.2 applied to the original interval instead of the current one)"),
"C20-agent":("LT quantiser skips a base whose multiplier would exceed 63 instead of clamping","requests between 63 x base and the next base (3151..9999 ms, 63001..99999 ms, ...): a smaller value than the largest representable one is written"),
}
for k,(what,needs) in N.items():
    p=f"/verif/seeded/{k}/meta.json"
    m=json.load(open(p)); m["change"]=what; m["needs_to_manifest"]=needs; m["round"]=1
    json.dump(m,open(p,"w"),indent=1)
N2={
"C01-agent2":("GBC indication built from the receiver's location-table PV of the source instead of the packet's SO PV","receiver already holds an entry for the sender AND a later GBC carries a PV with equal/older TST but different position/speed/heading (several fixes per second share a whole-second TST)"),
"C02-agent2":("refresh_ego_position_vector assigns the new PV field by field (five assignments) instead of swapping one object","a sender thread reading the ego PV between the first and the last assignment: an emitted packet carries a PV that never was the ego position (concurrency: decided by the C15 check)"),
"C03-agent2":("SignService.notify_received_ca_certificate also stores a self-issued certificate received in requestedCertificate as a trusted root","an AUTHENTIC frame of a valid ticket holder whose signed header carries a rogue root in requestedCertificate, followed by frames signed under that rogue chain; receiver's VerifyService wired to a SignService"),
"C04-agent2":("F evaluated after DAD and the location-table/DPL update (tidy-up of the no-op DPD block)","zero-sized-area GBC frame from a foreign source, then the intact copy with the same SN: dropped as a duplicate"),
"C05-agent2":("separate signer handlers for CAM and VAM; a peer's inline certificate request only reaches the CAM handler","VAM profile sender, peer requests its certificate via CAM, next VAM less than 1 s after the last certificate-bearing VAM"),
"C06-agent2":("CBF buffer is only searched for the duplicate's packet when the station is inside the area at the time of the duplicate","station buffers a GBC copy inside the area, gets a position fix outside before the contention timer expires, then overhears the duplicate"),
"C07-agent2":("one-entry offset cache in F keyed on area centre and station position, value stored after the azimuth rotation","two consecutive F evaluations with the same centre and position but different azimuth (second: rectangle/ellipse with a != b)"),
"C08-agent2":("expiry decided from the timestamp of the last accepted packet instead of the stored PV timestamp","a newer PV first, then a non-duplicate packet of the same source with an OLDER timestamp, then a purge between t_old+lifetime and t_new+lifetime"),
"C09-agent2":("issuer chain-length gate: 'no group exhausted' became 'some group not exhausted'","issuer whose certIssuePermissions hold several PSID groups with mixed remaining chain lengths (one >= 1, one 0) and a request for PSIDs of the exhausted group"),
"C10-agent2":("container 'last included' timestamps written when the container is attached, i.e. also when the CAM is then skipped","a CAM due to carry the LF container is refused by the lower layers / encoder, further CAMs within the next 500 ms"),
"C11-agent2":("path-history range checks on latitude and longitude offsets merged with 'or'","a position jump of more than 0.0131 degree in exactly ONE axis between two CAMs: wrapped path point, undecodable CAM or permanent stall"),
"C12-agent2":("bulk delete (delete_all_database) when every stored object has expired - which restarts the identifier sequence","at least two objects, all expired in one maintenance pass, then a further add: identifier reused; stale ids then act on the new object"),
"C13-agent2":("Dictionary back-end resolves attribute paths with a helper that returns None for a missing path","'!=' or 'notlike' on an attribute some stored object lacks (Dictionary back-end only; TinyDB differs)"),
"C14-agent2":("a subscription without a cadence record is treated as 'never notified, so due' (was: record created, notification withheld)","a subscription removed (by a sibling's callback or another thread) after the attendance pass took its snapshot, interval non-zero. NOTE: exposed the genuine defect fixed in e7b8d5b (interval None/0); on the fixed tree this change no longer breaks the property"),
"C15-agent2":("LS reply handler pops the buffered requests before taking the LS lock","a GUC request to the same destination queued between the pop and the lock: never sent, never dropped"),
"C16-agent2":("attendance pass copies the consumer registry once, before it copies the subscription list","register + subscribe of a new consumer completing between the two copies: the fresh subscription is removed as 'belonging to a deregistered consumer'"),
"C17-agent2":("destination area computed once per event from the first DENM","the application moves the (shared) request position while the event repeats: later DENMs carry the new event position but are broadcast to the old circle"),
"C18-agent2":("join-waiting confirmation handled after the operation container of the same VAM","leader's VAM that both acknowledges the join and announces the break-up, arriving in the joiner's waiting window: the station turns passive in a dissolved cluster"),
"C19-agent2":("reactive DCC steps relative to the current band only; steps down when cbr <= band.cbr_min (inclusive lower edge)","constant CBR exactly on the lower edge of a band (0.30, 0.40, 0.50, 0.60/0.65), held for more than four evaluations: oscillates"),
"C20-agent2":("default-lifetime LT memoised in an unkeyed module global","two MIBs with different itsGnDefaultPacketLifetime in one process; the second station's packets without requested lifetime carry the first one's default"),
}
for k,(what,needs) in N2.items():
    p=f"/verif/seeded/{k}/meta.json"
    m=json.load(open(p)); m["change"]=what; m["needs_to_manifest"]=needs; m["round"]=2
    json.dump(m,open(p,"w"),indent=1)
print("ok")
