import json
N6={
"C01-agent6":("(h) CBF packet buffer and its lock moved into the class body: shared by every GN router of the process","two (an even number of) in-process relays that both hear a geo-broadcast, receiver reachable only through them: the second relay cancels the first one's timer, nobody re-broadcasts"),
"C02-agent6":("(j) GNAddress.decode maps station-type codes without a name (13..31) to UNKNOWN instead of refusing the frame","a foreign frame whose source address carries an unnamed station type, forwarded or answered: goes out with the source address rewritten"),
"C03-agent6":("(h) class-level dict of signer certificates whose chain verified, consulted before the chain check","two certificate libraries with different trust anchors in one process; the station trusting the other root hears the sender first"),
"C04-agent6":("(k) update_pdr raises IncongruentTimestampException for a packet older than the last one of that source","a damaged (payload undecodable, GN headers valid) frame of a known sender whose source time stamp is ahead; every later good frame of that sender vanishes"),
"C05-agent6":("(i) list of unknown ticket digests cleared after signing - the list handed to the signed message is the same object","receiver met an unknown signer, then signs its own message: inlineP2pcdRequest emptied after the signature was computed, peers reject it (FALSE_SIGNATURE)"),
"C06-agent6":("(k) entry age taken from the PDR time stamp (overwritten by every accepted packet, also older ones) instead of the PV time stamp","known source, then a not-yet-seen packet of it with a source time more than the entry lifetime behind: entry and duplicate list dropped, duplicates delivered and forwarded again"),
"C07-agent6":("(j) SendingException no longer caught in the GBC forwarder; caught around the whole indication instead","receiver inside the area whose lower layer refuses the forwarded frame: nothing is handed to the upper layer"),
"C08-agent6":("(g) refresh_table walks the dict in insertion order and stops at the first live entry","an expired entry inserted after a live one"),
"C09-agent6":("(j) except KeyError -> needed permissions [] for a CA certificate without appPermissions under an explicit issuer","sub-CA without application permissions issued by an issuer with explicit certIssuePermissions: verifies although not covered"),
"C10-agent6":("(k) position report ignored unless its time is strictly later than the cached one","receiver reporting whole seconds at >1 Hz, or its time stepping back (leap-second correction): CAMs carry stale position and generationDeltaTime"),
"C11-agent6":("(k) elapsed time since the last VAM taken as plain difference of report times","stationary VRU whose report time steps back by k s: no VAM for k s (T_GenVamMax 5 s)"),
"C12-agent6":("(k) time-validity pass skipped while the clock is earlier than at the previous pass","time source set back (first GNSS fix), object expires on the new clock, explicit maintenance pass: still returned"),
"C13-agent6":("(j) _statement_matches catches only KeyError: a TypeError from comparing unlike types empties the Dictionary back-end's answer","filter on an attribute whose stored values are of unlike types (choice/None vs int)"),
"C14-agent6":("(g) DESC passes applied with reversed(): tie groups of the earlier key flipped","order with two keys, first descending, ties on the first key"),
"C15-agent6":("(j) _send_ls_request_packet catches only PacketTooLongException","link layer raises SendingException for one LS Request (first or a retransmission): timer thread dies, lookup never abandoned, requests stuck"),
"C16-agent6":("(j) error handler of del_provider_data calls the guarded accessor: re-enters the non-reentrant lock of LDMMaintenanceThread","storage back-end raises during one removal (provider delete or garbage collection) with threaded maintenance: deadlock, LDM wedged"),
"C17-agent6":("(k) repetition waits for absolute deadlines on the time of day instead of sleeping the interval","time of day stepped forward during a running event: burst of DENMs; stepped back: pause"),
"C18-agent6":("(j) break-up reason converted with the Python enum; ValueError swallowed as 'malformed', leader heartbeat refreshed before","foreign leader announcing break-up with reason 'max' (legal on the air, no name in the enum): member stays passive and silent"),
"C19-agent6":("(k) gate reported open for a caller whose time is earlier than the last admission","time source re-synchronised backwards / time stamp taken before another thread's admission: two admissions less than 25 ms apart"),
"C20-agent6":("(h) class-level cache of the default lifetime code point","two routers with different itsGnDefaultPacketLifetime in one process"),
}
FIRST_CAUGHT={"C05","C06","C08","C09","C13","C14","C20"}
for k,(what,needs) in N6.items():
    p=f"/verif/seeded/{k}/meta.json"
    try: m=json.load(open(p))
    except FileNotFoundError: continue
    m["change"]=what; m["needs_to_manifest"]=needs; m["round"]=6
    m["first_run_caught"]= k[:3] in FIRST_CAUGHT
    json.dump(m,open(p,"w"),indent=1)
print("ok6")
