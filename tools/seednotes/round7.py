import json
# round 7 (six properties only; agents had ~8 minutes and ran the tests of the touched package, the 930 baseline tests were run by
# tools/seeded.py verify afterwards).  Kinds asked for: (m) rarely set configuration, (n) numeric representation, (o) two features
# that are fine alone, (p) capacity.
N7={
"C06-agent7":("(n) GUC forwarder compares the raw 32-bit msec values of the LocT PV and the carried DE PV instead of the wrap-aware TST order","forwarder knows the destination as neighbour; LocT PV and packet DE PV on opposite sides of the 2^32 ms roll-over: newer DE PV replaced by the older one"),
"C08-agent7":("(n) refresh_table computes a plain signed age now_ms - pv.tst.msec instead of the wrap-aware test","2^32 ms roll-over between the entry's PV time and the local clock: entry never expires (stays neighbour) / entry of a sender 300 ms ahead purged at once"),
"C13-agent7":("(o) chain of stable sorts, one per order attribute, replaced by one sort on a tuple key whose reverse flag comes from the first order entry","order with two or more attributes of differing directions and ties on the first attribute"),
"C14-agent7":("(o) 'attribute missing or not comparable -> no match' decided per object instead of per statement","OR filter of two statements over several subscribed types; an object matches one statement and lacks the other's attribute: never notified"),
"C19-agent7":("(o) admit_packet stores the unbounded t_on/delta; update_delta rescales that instead of the bounded interval in force","an admission whose B.1 interval hit the 25 ms or 1 s bound, then a delta update while the gate is closed"),
"C01-agent7":("(n) math.fmod instead of % in the longitude-difference normalisation of calculate_distance","GBC/GAC area centre just west of the antimeridian, receiver just east of it (difference below -180 deg): receiver inside the area judged outside, nothing delivered"),
"C02-agent7":("(n) _to_signed via int.from_bytes(signed=True) over whole octets: the 15-bit speed is never sign-extended","a long position vector with a negative speed (reversing station)"),
"C05-agent7":("(n) integer microseconds-per-unit table with sixtyHours = 6 h","honest sender whose ticket validity is given in sixtyHours and that is past a tenth of it: rejected, never learnt, P2PCD cannot recover"),
"C07-agent7":("(n) area-size limit compared after floor division to km2","area between the maximum and the maximum + 1 km2 (request, GBC forward, GAC forward): accepted / forwarded"),
"C09-agent7":("(n) integer microseconds-per-unit table with sixtyHours = 600 h","ticket validity in sixtyHours, generation time up to ten times the duration after the start: accepted"),
"C12-agent7":("(n) end of validity computed in whole seconds with round(timestamp/1000)","object whose add time stamp has a millisecond part >= 500, maintenance pass in the first second after its expiry, then a query: still returned"),
"C20-agent7":("(n) round() instead of int() in the seconds -> milliseconds conversion of the requested maximum lifetime","explicit max_packet_lifetime with a fractional millisecond >= 0.5 just below a representable LT step: wire lifetime exceeds the request"),
}
FIRST_CAUGHT=set(open('/verif/tools/seednotes/round7.first').read().split())
for k,(what,needs) in N7.items():
    p=f"/verif/seeded/{k}/meta.json"
    try: m=json.load(open(p))
    except FileNotFoundError: continue
    m["change"]=what; m["needs_to_manifest"]=needs; m["round"]=7
    m["first_run_caught"]= k[:3] in FIRST_CAUGHT
    json.dump(m,open(p,"w"),indent=1)
print("ok7")
