import json
N5={
"C01-agent5":("(a) GUC to a destination with a pending lookup is sent directly once the destination is a neighbour","burst of unicast requests to an unknown destination with a beacon/SHB of that destination overtaking the LS exchange"),
"C02-agent5":("(c) requested lifetime truncated to whole seconds before quantising (two sites)","fractional requested lifetimes below 3.2 s: 0.5 s -> LT 0, 1.5 s -> 1 s"),
"C03-agent5":("(a) a self-signed certificate received in requestedCertificate is stored as a trusted root when its HashedId3 is among the station's own unknown digests","a rejected frame naming the foreign root as unknown issuer/signer, then an authentic CAM carrying that root, then frames under the rogue chain; VerifyService wired to a SignService"),
"C04-agent5":("(b) C-V2X link layer: stop sentinel test 'is None' became 'not data'","a PDU that is only the 1-octet family id (empty payload) ends the callback thread of the C-V2X back-end"),
"C05-agent5":("(d) list of unknown ticket digests capped at 8 entries, never evicted","a receiver that has met eight unknown signers in its lifetime never asks for the ninth: digest-signed messages stay rejected beyond two exchanges (5 Hz senders)"),
"C06-agent5":("(c) DE PV refresh of a forwarded GUC compares raw millisecond values instead of the wrap-aware order","table PV and packet DE PV timestamps on opposite sides of the 2^32 ms roll-over"),
"C07-agent5":("(a) azimuth rotation skipped when a == b (right for an ellipse/circle, wrong for a rotated square)","rectangle with equal half-sides and an azimuth that is not a multiple of 90 degrees, receiver where the turned and unturned squares differ"),
"C08-agent5":("(a) an LS reply processed while the lookup is pending treats the entry as new: neighbour flag reset","lookup pending for S, beacon/SHB of S processed meanwhile (S is a neighbour), then S's LS reply"),
"C09-agent5":("(a) chain length no longer decremented for subordinate CAs issued by an issuer with explicit permissions","sub-CA (with an application permission, otherwise the API raises) under an explicit issuer: chains of any depth verify"),
"C10-agent5":("(c) haversine replaced by an equirectangular approximation with the latitude left in degrees inside cos()","east-west movement at latitudes where cos(lat in radians taken as degrees) is far off (42.4, 48.7, 51.8 ... degrees): position trigger missed"),
"C11-agent5":("(d) path history trimmed with del list[40:] - drops the newest entry once 40 are stored","more than 40 CAMs in one activation: path points go stale, then the history empties"),
"C12-agent5":("(c) Dictionary back-end wraps its identifier counter at 2^16","65537th add on one LDM: identifier 0 handed out again, a live object silently replaced"),
"C13-agent5":("(a) order attribute path resolved once from the first element, None keys grouped instead of raising","ordered request over several message types by an attribute whose path depends on the type"),
"C14-agent5":("(f) notification time recorded only after the callback has returned","a consumer that publishes into the LDM from inside its callback (reactive service re-enters the attendance), or a second attending thread: notified twice inside one interval / unbounded recursion"),
"C15-agent5":("(f) LS reply handler flushes a copy of the buffered requests and removes the buffer afterwards","two LS replies (retransmitted request answered twice) processed concurrently or re-entrantly: buffered requests sent twice"),
"C16-agent5":("(f) notification time recorded after the callback, in its own critical section","a second attendance pass while the first is inside the callback: same subscription notified again within its interval; removed subscription's record resurrected"),
"C17-agent5":("(e) destination area computed once per event while the DENM body follows the shared request position","application re-triggers the same service object at a new position during a running event"),
"C18-agent5":("(a) leave-notification expiry only evaluated while no join is under way (refactor into a helper called from the else branch)","leave from passive, join accepted within 1 s: stale leave info 3+ s later and a passive station that still transmits"),
"C19-agent5":("(c) gate test uses math.isclose with a relative tolerance","large timestamps (epoch seconds / long uptimes): gate opens early or never closes"),
"C20-agent5":("(c) requested lifetime truncated to whole seconds","fractional lifetimes: 50..999 ms -> 0, 1.5 s -> 1 s"),
}
for k,(what,needs) in N5.items():
    p=f"/verif/seeded/{k}/meta.json"
    m=json.load(open(p)); m["change"]=what; m["needs_to_manifest"]=needs; m["round"]=5
    m["first_run_caught"]= k[:3] not in {"C01","C03","C05","C06","C08","C09","C11","C12","C14","C16"}
    json.dump(m,open(p,"w"),indent=1)
print("ok5")
