#!/usr/bin/env python3
"""Seeded changes written by independent agents (seeded/<id>/patch.diff + demonstration + meta.json).

  tools/seeded.py collect <id> <worktree>     copy the uncommitted diff and demo out of an agent's scratch worktree
  tools/seeded.py verify  <id>                 scratch copy of /repo: demo fails with the patch, passes without; suite passes with it
  tools/seeded.py run     <id> [Cxx ...]       run quick checks (default: the property's own) against a scratch copy with the patch
                                               (--tier thorough for the deeper tier)
Scratch copies live under a temp dir outside /repo and /verif and are removed afterwards; /repo is never modified.
"""
import json
import os
import shutil
import subprocess
import sys
import tempfile
import time

HERE = os.path.dirname(os.path.abspath(__file__))
VERIF = os.path.dirname(HERE)
SEEDED = os.path.join(VERIF, "seeded")


def meta_path(i):
    return os.path.join(SEEDED, i, "meta.json")


def load_meta(i):
    p = meta_path(i)
    return json.load(open(p)) if os.path.exists(p) else {"id": i}


def save_meta(i, m):
    json.dump(m, open(meta_path(i), "w"), indent=1)


DEFAULT_BASE = "00b458a"     # /repo HEAD when the first two rounds of seeded changes were written


def scratch(with_patch, i):
    """Scratch copy of /repo at the commit the change was written against (meta 'base'; VERIF_SEED_BASE=worktree uses /repo's
    working tree instead), with the patch applied on request."""
    tmp = tempfile.mkdtemp(prefix="verif-seed-")
    base = os.environ.get("VERIF_SEED_BASE") or load_meta(i).get("base") or DEFAULT_BASE
    if base == "worktree":
        for d in ("src", "tests"):
            shutil.copytree(os.path.join("/repo", d), os.path.join(tmp, d), ignore=shutil.ignore_patterns("__pycache__"))
        for f in os.listdir("/repo"):
            if f.endswith((".toml", ".cfg", ".ini")) or f == "conftest.py":
                shutil.copy(os.path.join("/repo", f), tmp)
    else:
        a = subprocess.run(f"git -C /repo archive {base} | tar -x -C {tmp}", shell=True, capture_output=True, text=True)
        if a.returncode != 0:
            shutil.rmtree(tmp, ignore_errors=True)
            raise SystemExit(f"cannot export {base}: {a.stderr}")
    if with_patch:
        p = subprocess.run(["patch", "-p1", "-s", "-i", os.path.join(SEEDED, i, "patch.diff")], cwd=tmp, capture_output=True, text=True)
        if p.returncode != 0:
            shutil.rmtree(tmp, ignore_errors=True)
            raise SystemExit(f"patch does not apply: {p.stdout}{p.stderr}")
    return tmp


def collect(i, wt):
    d = os.path.join(SEEDED, i)
    os.makedirs(d, exist_ok=True)
    diff = subprocess.run(["git", "-C", wt, "diff", "--", "src"], capture_output=True, text=True).stdout
    if not diff.strip():
        raise SystemExit("empty diff")
    open(os.path.join(d, "patch.diff"), "w").write(diff)
    demo = os.path.join(wt, "demo_seed.py")
    if os.path.exists(demo):
        s = open(demo).read().replace(wt, "$ROOT")
        open(os.path.join(d, "demo_seed.py"), "w").write(s)
    notes = os.path.join(wt, "NOTES.md")
    if os.path.exists(notes):
        open(os.path.join(d, "NOTES.md"), "w").write(open(notes).read().replace(wt, "$ROOT"))
    m = load_meta(i)
    m.update(id=i, property=i.split("-")[0], base=subprocess.run(["git", "-C", wt, "rev-parse", "--short", "HEAD"], capture_output=True, text=True).stdout.strip(), files=sorted({l[6:] for l in diff.splitlines() if l.startswith("+++ b/")}),
             changed_lines=sum(1 for l in diff.splitlines() if l[:1] in "+-" and l[:3] not in ("+++", "---")))
    save_meta(i, m)
    print("collected", i, m["files"], m["changed_lines"], "changed lines")


def run_demo(i, tmp):
    demo = os.path.join(SEEDED, i, "demo_seed.py")
    if not os.path.exists(demo):
        return None
    s = open(demo).read().replace("$ROOT", tmp)
    dp = os.path.join(tmp, "demo_seed.py")
    open(dp, "w").write(s)
    try:
        p = subprocess.run(["/venv/bin/python", "-B", dp], cwd=tmp, env=dict(os.environ, PYTHONPATH=os.path.join(tmp, "src")),
                           capture_output=True, text=True, timeout=900)
        return p.returncode, (p.stdout + p.stderr)[-600:]
    except subprocess.TimeoutExpired:
        return "timeout", ""


def verify(i):
    m = load_meta(i)
    tmp = scratch(True, i)
    try:
        m["demo_with_patch"] = run_demo(i, tmp)
        jx = os.path.join(tmp, "junit.xml")
        p = subprocess.run(["/venv/bin/python", "-m", "pytest", "-q", "-p", "no:cacheprovider", "--timeout=900", "--continue-on-collection-errors", f"--junitxml={jx}", "tests"], cwd=tmp,
                           env=dict({k: v for k, v in os.environ.items() if k != "FLEXSTACK_VERIF"}, PYTHONPATH=os.path.join(tmp, "src")),
                           capture_output=True, text=True, timeout=5400)
        m["suite_with_patch"] = p.stdout.strip().splitlines()[-1] if p.stdout.strip() else f"exit {p.returncode}"
        m["suite_exit"] = p.returncode
        # the verdict that counts: every test of the pinned baseline's stable_pass list still passes
        try:
            import xml.etree.ElementTree as ET
            stable = set(json.load(open("/root/.vp/BASELINE.json"))["stable_pass"])
            passed = set()
            for tc in ET.parse(jx).getroot().iter("testcase"):
                if not any(ch.tag in ("failure", "error", "skipped") for ch in tc):
                    passed.add(f"{tc.get('classname')}::{tc.get('name')}")
            m["suite_baseline_tests_failing"] = sorted(stable - passed)[:10]
            m["suite_baseline_ok"] = not (stable - passed)
        except Exception as e:  # noqa
            m["suite_baseline_ok"] = None
            m["suite_baseline_error"] = repr(e)
    finally:
        shutil.rmtree(tmp, ignore_errors=True)
    tmp = scratch(False, i)
    try:
        m["demo_without_patch"] = run_demo(i, tmp)
    finally:
        shutil.rmtree(tmp, ignore_errors=True)
    save_meta(i, m)
    print(json.dumps({k: m.get(k) for k in ("id", "demo_with_patch", "demo_without_patch", "suite_with_patch")})[:900])


def scratch_on_head(i):
    """Scratch copy of /repo's HEAD with the patch applied, or None when the patch no longer applies there (it overlaps a later fix)."""
    head = subprocess.run(["git", "-C", "/repo", "rev-parse", "--short", "HEAD"], capture_output=True, text=True).stdout.strip()
    os.environ["VERIF_SEED_BASE"] = head
    try:
        return scratch(True, i), head
    except SystemExit:
        return None, head
    finally:
        os.environ.pop("VERIF_SEED_BASE", None)


def run(i, props, tier):
    m = load_meta(i)
    props = props or [m.get("property", i.split("-")[0])]
    # the change is evaluated on top of the repository as it is now (with every later fix); only when the patch no longer
    # applies there is it evaluated on the commit it was written against
    tmp, head = (None, None) if os.environ.get("VERIF_SEED_BASE") else scratch_on_head(i)
    if tmp is None:
        tmp = scratch(True, i)
        m["evaluated_on"] = os.environ.get("VERIF_SEED_BASE") or m.get("base") or DEFAULT_BASE
        if head:
            m["evaluated_on_note"] = f"patch does not apply on {head} (it overlaps a later fix): evaluated on the commit it was written against"
    else:
        m["evaluated_on"] = head
        m.pop("evaluated_on_note", None)
    try:
        for prop in props:
            t0 = time.time()
            p = subprocess.run([os.path.join(VERIF, "check"), prop, "--tier", tier], cwd=VERIF,
                               env=dict(os.environ, VERIF_REPO=tmp, VERIF_EVIDENCE_SUFFIX=".seed"), capture_output=True, text=True, timeout=7200)
            keys = [l.strip()[:260] for l in p.stdout.splitlines() if l.strip().startswith("key=")]
            r = {"exit": p.returncode, "caught": p.returncode == 1, "keys": keys[:4], "wall_s": round(time.time() - t0, 1)}
            m.setdefault("checks", {}).setdefault(tier, {})[prop] = r
            print(i, prop, tier, json.dumps(r)[:700], flush=True)
    finally:
        shutil.rmtree(tmp, ignore_errors=True)
    save_meta(i, m)


if __name__ == "__main__":
    cmd = sys.argv[1]
    if cmd == "collect":
        collect(sys.argv[2], sys.argv[3])
    elif cmd == "verify":
        verify(sys.argv[2])
    elif cmd == "run":
        args = sys.argv[3:]
        tier = "quick"
        if "--tier" in args:
            k = args.index("--tier")
            tier = args[k + 1]
            del args[k:k + 2]
        run(sys.argv[2], args, tier)
