#!/usr/bin/env python3
"""Prints the markdown table of DESIGN.md section 9.2 from seeded/*/meta.json (and rewrites the section when called with --write)."""
import glob
import json
import os
import re
import sys

VERIF = os.path.dirname(os.path.dirname(os.path.abspath(__file__)))


def rows():
    out = []
    for p in sorted(glob.glob(os.path.join(VERIF, "seeded", "*", "meta.json")), key=lambda q: (json.load(open(q)).get("round", 0), q)):
        m = json.load(open(p))
        q = m.get("checks", {}).get("quick", {})
        caught = [f"{prop}" for prop, r in sorted(q.items()) if r.get("caught")]
        missed = [f"{prop}" for prop, r in sorted(q.items()) if not r.get("caught")]
        key = ""
        for prop, r in sorted(q.items()):
            if r.get("caught") and r.get("keys"):
                key = r["keys"][0].split(" count=")[0].replace("key=", "")
                break
        dw, dwo = m.get("demo_with_patch"), m.get("demo_without_patch")
        demo = f"{dw[0] if dw else '?'}/{dwo[0] if dwo else '?'}"
        suite = "yes" if m.get("suite_baseline_ok") or "930 passed" in str(m.get("suite_with_patch")) else "?"
        first = {True: "at once", False: "after strengthening", None: "?"}[m.get("first_run_caught")]
        on = m.get("evaluated_on", m.get("base", "?")) + (" (*)" if m.get("evaluated_on_note") else "")
        extra = f" {m['head_note']}" if m.get("head_note") else ""
        out.append(f"| {m['id']} | {m.get('round', '?')} | `{os.path.basename(m['files'][0])}` | {m.get('change', '')} | {m.get('needs_to_manifest', '')} | {demo} | {suite} | {on} | "
                   f"{', '.join(caught) or '-'}{(' (not by: ' + ', '.join(missed) + ')') if missed and caught else ''}{extra} | {first} | `{key[:110]}` |")
    return out


def main():
    hdr = ["| id | round | file | change | needs, to manifest | demo exit with/without | 930 baseline tests pass | evaluated on /repo commit | caught by (quick tier, final checks) | caught | first violation key |",
           "|---|---|---|---|---|---|---|---|---|---|---|"]
    text = "\n".join(hdr + rows())
    if "--write" in sys.argv:
        p = os.path.join(VERIF, "DESIGN.md")
        s = open(p).read()
        a, b = "<!-- SEEDED-TABLE-BEGIN -->", "<!-- SEEDED-TABLE-END -->"
        if a not in s:
            s = s.replace("SEEDED_TABLE_PLACEHOLDER", a + "\n" + b)
        s = re.sub(re.escape(a) + r".*?" + re.escape(b), lambda _m: a + "\n" + text + "\n" + b, s, flags=re.S)
        open(p, "w").write(s)
    else:
        print(text)


if __name__ == "__main__":
    main()
