#!/usr/bin/env python3
"""Regenerates MANIFEST.json from the table below (kept valid at all times)."""
import json, os, subprocess
HERE = os.path.dirname(os.path.dirname(os.path.abspath(__file__)))

TECH = {}
CHECKS = {}

def add(pid, technique, text, note, design):
    CHECKS[pid] = dict(technique=technique, text=text, note=note, design=design)

add("C20", "runtime monitor: reference quantiser + independent wire parser on packets emitted by the real router",
    "Exploration: the real LT quantiser is run on every request value of the tier's lattice (thorough: every integer ms 0..7 000 000, i.e. the whole domain named by the property) and compared with a brute-force reference; every originated packet type is emitted by a real router under random lifetimes/hop limits/MIB defaults, captured on the simulated ether and parsed by an independent codec; RHL>MHL frames are injected and the indication/transmit logs watched. Held on the executions observed.",
    "Trusts the reference quantiser/codec in vf/ref (self-checked against worked values) and the harness' virtual clock; does not cover secured envelopes' lifetime (basic header is outside the signed part and identical).",
    "DESIGN.md 3/C20")

add("C02", "differential runtime monitor: real header codecs and packets emitted by the real router vs an independent reference codec",
    "Exploration: every header codec of the repository is run in both directions against an independent struct-based codec over per-field sweeps (quick: stride 13 of every <=16-bit field + boundaries; thorough: every value) and boundary-biased samples of the 32/48-bit fields; every packet kind the router can originate or forward is emitted by a real GN+BTP router on a simulated ether (both hemispheres, all TCs, both mobility settings, SN incl. wrap) and compared octet for octet with the packet built by the reference encoder from request, MIB and ego position vector.",
    "Trusts vf/ref/wire.py as the transcription of EN 302 636-4-1 cl. 9 / EN 302 636-5-1 cl. 7; lifetime code point is compared by value (C20 decides the quantiser); secured envelopes are decoded in C05, not here.",
    "DESIGN.md 3/C02")

add("C08", "runtime monitor: reference location-table model stepped beside the real table over generated packet/clock histories; exhaustive-lattice + random check of the TST order",
    "Exploration: a real GN router receives reference-built packets of all nine kinds from up to four phantom sources (and frames bearing its own address) with millisecond timestamps before/at/after its virtual clock, exact byte replays, clock advances up to several lifetimes and histories laid across the 2^32 ms wrap; after every processed packet get_entry/get_neighbours and a read-only walk of the table are compared with an independent model. All six comparison operators and subtraction of the real TST class are checked on a boundary lattice and random pairs/triples.",
    "Expiry is judged outside +-1 s of tst+lifetime and only after a packet reached the table (purging is lazy by design); a source whose packet arrives inside that band is not judged until its entry has unambiguously expired; differences of exactly 2^31 ms are not judged.",
    "DESIGN.md 3/C08")
add("C19", "runtime monitor: reference reactive machine, exact-rational LIMERIC step and Annex B gate run beside the real objects",
    "Exploration: exhaustive CBR sequences over band-boundary representatives (edge -1 ulp, edge, +1 ulp, interiors; length 4 quick / 6 thorough, both Annex A tables) and random walks drive the real DccReactive; random parameter sets and CBR sequences drive DccAdaptive with every step re-derived in exact rationals from the object's own previous state; random arrival/delta-update/query streams drive GateKeeper against an exact Annex B gate with probes 10 us before/after every scheduled opening and the 25 ms / 1 s / one-per-opening invariants asserted on the real outputs.",
    "Annex A rows are the oracle's own transcription (the standard is not available offline); instants within 1 us of an opening are not judged.",
    "DESIGN.md 3/C19")

add("C07", "runtime monitor: EN 302 931 oracle on two independent projections vs the real F function and the delivery/forwarding decisions of a real two-station run",
    "Exploration: areas over the signed WGS-84 range (high latitudes, antimeridian), semi-axes 1..65535 m, all azimuths, three shapes x GBC/GAC; receivers are placed by the harness on rays through the border at relative radii {0,.5,.9,.98,1.02,1.1,2,10}; the sign of the real gn_geometric_function_f and, through a real source+receiver pair on the simulated ether, the indication, the GAC deliver-xor-forward rule, the Annex D forwarder choice (sender inside/outside, PAI on/off) and the area-size refusal of requests (GNDataConfirm) and forwards are compared with the oracle.",
    "Points inside the tolerance band max(1 m, 1 % of the semi-axis, disagreement of the great-circle and equirectangular projections) are not judged, as the property allows; sender == source in the two-station runs.",
    "DESIGN.md 3/C07")

add("C01", "runtime monitor: exactly-once / order / metadata checker over handler invocations of 2-5 real stations on a simulated ether",
    "Exploration: 2-5 real GN+BTP stacks (mesh and line topologies, SIMPLE/CBF, anywhere on the globe incl. both hemispheres and the antimeridian) exchange SHB, GBC, GAC (3 shapes) and GUC requests with unique payload tags, BTP-A/B, ports over the 16-bit range with several handlers per station, payloads 0..1400, all TC ids, hop limits, and GUC bursts issued while a location-service lookup is pending with unrelated receptions in between; after the ether is drained and all virtual timers up to LS give-up fired, the handler logs are checked for exactly-once delivery to the expected receiver set (topology + EN 302 931 oracle + hop budget), no delivery to other ports/stations/the sender, byte identity, request order per (sender, destination) and SO PV / transport type / port info / traffic class metadata.",
    "Geo-broadcast/anycast reach is judged in full-mesh topologies only; receivers in the C07 tolerance band are not judged; SCF traffic is not generated (buffers are documented stubs); security-enabled variants are covered by C03/C05.",
    "DESIGN.md 3/C01")

add("C06", "runtime monitor: offline history checker over (rx frame, indications, tx frames, virtual timers) keyed by (source, SN), with an exact model of the duplicate window",
    "Exploration: (A) one real station with a real neighbour receives streams of reference-built TSB/GBC/GAC/GUC/LS packets from up to three phantom sources and from its own address, with exact duplicates and replays inside and outside the DPL window (lengths 1..16), SN wrap, received RHL 0/1/2/.../255, SIMPLE and CBF with a duplicate overheard 0.4 ms after buffering or the timer left to fire; indications and transmissions are judged per (SO,SN): at most one delivery/forward inside the window, nothing for own-address packets, nothing forwarded for RHL 0/1, forwarded copy byte-identical except RHL-1 and a DE PV refreshed only by a strictly newer neighbour PV. (B) floods of GBC/TSB/LS-request through 3-8 real stations in line/ring/mesh, SIMPLE and CBF, run to quiescence in virtual time: per station at most one transmission and delivery per packet, each transmitted RHL one below a received copy, no CBF transmission after an overheard duplicate, termination within MHL x stations rounds.",
    "Histories stay well inside itsGnLifetimeLocTE so that the DPL is never reset by entry expiry; omitted forwards (PDR limit, size control, SCF stub) are allowed.",
    "DESIGN.md 3/C06")

add("C12", "runtime monitor: reference map model stepped in lock-step with a real LDM, full-content and registry comparison after every IF.LDM.3/4 call",
    "Exploration: histories of 10..300 register/deregister (provider and consumer, incl. invalid ids and permission sets), add, update (same/other type, unknown id, unregistered requester), delete, typed request, virtual clock advance and explicit maintenance passes drive a real LDM facility (reactive service and maintenance; Dictionary back-end, TinyDB in a temp dir for a smaller share); after every step the unfiltered content seen by an auditor consumer and both registries are compared with the model: content/timestamp/location/validity as added, update changes content only, deleted or expired-and-collected objects never return, refused requests have no effect, identifiers never reused, no operation changes another object or a registration.",
    "Expiry is judged outside +-1 s of timestamp+validity and 'gone' only after an explicit maintenance pass that followed both the expiry and the add; outcomes on expired-but-uncollected objects are accepted either way; registration follows the LDM's own responses.",
    "DESIGN.md 3/C12")

add("C13", "runtime monitor: brute-force predicate evaluator and side-by-side Dictionary/TinyDB back-ends behind the real IF.LDM.4",
    "Exploration: two real LDMs (Dictionary and TinyDB in a temp dir) receive the same history of 0..60 CAM/DENM/VAM/POI/CPM dictionaries (with and without optional containers) plus deletions; requests over every dotted dict path occurring in the store, all 8 operators, matching / off-by-one / wrong-typed / absent reference values, and/or, all type selections and 0..3 order keys with mixed directions are answered by both through request_data_objects and compared with an independent evaluator (set equality, order by key tuple with per-key direction, ties free) and with each other.",
    "Dotted paths address dictionaries only; order attributes are chosen among attributes present in every selected object; tuple/list differences from JSON storage are normalised.",
    "DESIGN.md 3/C13")

add("C14", "runtime monitor: every attendance pass and callback invocation of a real LDM recorded and judged by a reference subscription model",
    "Exploration: interleavings of subscribe (valid and with exactly one invalid field: unknown consumer, type, priority, interval, multiplicity), unsubscribe (valid and unknown id), register/deregister/re-register, add, delete, virtual clock advance and explicit attendance with four consumer ids and overlapping subscriptions (types, one/two-statement filters, multiplicity none/0..5, interval none/1 ms..5 s, 0..2 order keys); attendance passes are observed through a call/return hook (reactive passes inside add and explicit ones), callbacks record arguments and virtual time; per pass and subscription the model says must / must-not / either and the notified set and order are compared with the brute-force evaluator of C13.",
    "Cadence is judged at whole seconds (less than 1 s from the boundary is 'either'); the first notification may come at once or one interval after subscribing; object validity is far longer than the histories.",
    "DESIGN.md 3/C14")

add("C09", "runtime monitor: independent chain checker re-verifying every stored certificate after every library operation; acceptance and issuing grids",
    "Exploration: (S) histories of add-root/AA/AT/own, verify_sequence_of_certificates (1-3 certificates) and received signed messages draw from a pool of genuine certificates and hostile ones (attacker root/AA/AT, AT re-signed by a foreign key while claiming the genuine AA, tampered permissions, mis-issued escalated AT signed with the real AA key, signature bit flip, self-signed AT, wrong issuer object); after every operation all library dictionaries are walked and each certificate is re-verified up to the operator-configured roots by an independent checker (python-ecdsa on the OER image, own containment arithmetic), and the root store must not change. (V) a genuine ticket signs messages for ITS-AIDs inside/outside its permissions and generation times before/within/after validity windows of 30 s..10 years. (I) the issuing API is exercised over issuer permission sets (all/explicit), chain budgets 0..3, 0-2 intermediate CAs and ticket PSID sets.",
    "The OER codec (asn1tools + the ASN.1 module) and python-ecdsa are trusted; only roots given to add_root_certificate by the harness count as configured.",
    "DESIGN.md 3/C09")

add("C03", "runtime monitor: provenance oracle over frames injected into a real security-ENABLED receiver (every frame is genuine-as-emitted or forged by construction)",
    "Exploration: an honest real sender emits CAM/VAM-profile SHBs (certificate and digest signer forms), a DENM-profile GBC and a generic-profile SHB; a real receiver with itsGnSecurity ENABLED (fresh / taught by a genuine certificate frame / pre-loaded with the ticket) is fed shuffled streams of every single-bit flip of a frame (thorough; 256 sampled flips quick), byte substitutions, truncations, extensions, 20+ structure-level mutations re-encoded with the OER coder (payload, psid, generationTime, signer swap, attacker certificate, certificate permissions/validity, r/s incl. 0, n, n-s, swapped, point form, extra header field), frames signed under an attacker-built root/AA/AT chain, by an attacker ticket claiming the genuine AA, by the attacker key under the genuine digest, and unsecured SHB/GBC/beacon, interleaved with genuine frames; any GN indication or BTP handler call for a frame whose signed data, signer or signature differs from what an honest station emitted is a violation.",
    "Mutations that leave tbsData, signer and signature identical after decoding (encoding slack, trailing octets, unsigned basic header / hashId) may be delivered; exceptions count as not delivered (C04); python-ecdsa trusted.",
    "DESIGN.md 3/C03")

add("C05", "runtime monitor: acceptance oracle (honest by construction) and TS 103 097 clause 7.1 profile acceptor over every envelope emitted by real stations",
    "Exploration: 2-6 real stations with itsGnSecurity ENABLED and real SignService/VerifyService/CertificateLibrary (own ticket under a common root and AA) exchange CAM- and VAM-profile SHBs at 1-10 Hz, DENM-profile GBCs and generic-profile SHBs over 7 s of virtual time; stations join at arbitrary phases of the senders' certificate timers; receivers know only root+AA or are pre-loaded with peer tickets. Every emitted envelope is decoded with the OER coder and judged against the profile rules (signer certificate when more than 1 s since last inclusion or when a peer asked through inlineP2pcdRequest, DENM always certificate with generationLocation, psid/generationTime present, forbidden header fields absent, signer = own ticket); every (message, receiver) pair is judged: must be indicated exactly once with the signed payload when it carries the certificate or the ticket is known, else within two further CAM/VAMs of the sender after the receiver's own next CAM reached it.",
    "All stations share root and AA; the certificate rule is judged in the 'must include' direction; generationTime is compared with the virtual clock within 2 s.",
    "DESIGN.md 3/C05")

add("C04", "runtime monitor: liveness of the real receive loops (RawLinkLayer thread over a scripted socket; CV2X callback loop over a queue) + twin-run equivalence of outputs and state",
    "Exploration: the real RawLinkLayer.receive thread (socket rebound to a scripted one, one frame handed over at a time) and the real CV2XLinkLayer.callback_handler_loop (missing .so stubbed) feed a real GN router (security off / ENABLED) -> BTP -> CA, DEN and VRU services with and without LDM. Streams of valid traffic (real encoded CAM/VAM/DENM payloads; genuine secured frames) are interleaved with random bytes, grammar-based frames (wrong version, reserved NH/HT/HST/ST, RHL>MHL, zero-sized areas, truncation at every header boundary +-1), bit flips and truncations of real packets, broken security envelopes, secured bit flips/truncations, undecodable or mutated facility payloads, truncated BTP headers, own-MAC and foreign-unicast frames. After every frame the loop thread must be alive and back in recv, nothing but NotImplementedError may be raised into the loop, a bad frame must leave outputs and state untouched, and after every good frame the station is compared with a twin that never saw the header-invalid frames (link-layer sends, GN indications, facility callbacks, LDM content, location table, trust store, CBF/LS buffers, SN).",
    "Frames whose GN headers a strict reference parser accepts (or whose secured part is authentic) go to both twins; for them only liveness is judged. Wall-clock watchdog 10 s per frame -> inconclusive.",
    "DESIGN.md 3/C04")

add("C10", "runtime monitor: reference replay of the same report stream and check instants against time-stamped, decoded BTP requests of the real CA/VRU transmission managers under a virtual clock",
    "Exploration: timed TPV trajectories (constant, accelerating, turning through 0/360 both ways, stop-and-go, jitter around the thresholds, dropouts up to 65.6 s, missing optional keys) at 1-50 Hz with start/stop/restart sequences and start times next to a generationDeltaTime wrap drive the real CAMTransmissionManagement (its threading.Timer rebound to the virtual timer; check instants read from the timer log) and the real VAMTransmissionManagement (time.time = virtual clock). Every emitted BTPDataRequest is time-stamped and decoded; the replay decides must / must-not / may per check: >= 100 ms spacing (also across restart), CAM at the first check with exceeded dynamics, at most T_GenCamMax + one check period, LF container in the first CAM and exactly from 500 ms on, nothing while inactive, content = latest report, generationDeltaTime = report ITS time mod 65536; VAM at the first report, >= 100 ms on report timestamps, a VAM at every report >= 5 s after the last, LF container in the first VAM and from 2 s on.",
    "Threshold comparisons carry 1e-9 hysteresis (near-threshold cases become 'may'); a report arriving exactly at a check instant may be ordered either way; error estimates stay nominal (C11 covers extremes).",
    "DESIGN.md 3/C10")

add("C11", "runtime monitor: element-by-element mapping oracle (TS 102 894-2 codes) over the decoded payload of every BTP request produced by the real CA, VRU and DEN transmission paths",
    "Exploration: reports with latitude/longitude over the full signed range, altitude -1000..10000 m, speed 0..200 m/s, track 0..360, error estimates 0..hundreds (boundary-biased and log-uniform so that every confidence class is hit) and every subset of optional keys are fed to the real CAMTransmissionManagement (two CAMs per report, with LF container and path history), VAMTransmissionManagement (clustering off / standalone / leader / leader in break-up / joining / join cancelled / leaving) and DENM generation (emergency-vehicle application and collision-risk request); every payload is decoded with the repository's UPER coder and compared with the oracle: in-range values within 1 LSB, out-of-range/unavailable inputs mapped to the element's codes, station data, LF container, cluster information/operation containers, GBC area at the event position; any raise, skipped CAM or missing message is a violation. GenerationDeltaTime reconstruction is checked for ages 0..65 s across wrap-arounds.",
    "asn1tools is the only UPER decoder available (a symmetric codec bug is invisible); confidence-class boundaries accept either neighbour; ellipse orientation and cluster radius unit are not judged.",
    "DESIGN.md 3/C11")

add("C17", "runtime monitor: schedule and identity checker over time-stamped, decoded DENM requests of the real repetition threads stepped in lock-step virtual time; LDM query after real reception",
    "Exploration: 1-6 overlapping DEN requests per scenario (emergency-vehicle application with interval 100..10000 ms and duration 0..60 s incl. exact multiples, collision-risk single shots) at event positions over the signed WGS-84 range; the real DENMTransmissionManagement threads run, their time.sleep being a virtual sleep released one sleeper at a time in wake-up order; every BTPDataRequest is time-stamped and decoded: ceil(T/i) messages at t0 + k*i, port 2002, GBC circle centred on the event position, constant action id and station identity per event, non-decreasing reference time equal to the transmission time, pairwise different action ids across events, no thread left running. Real encoded DENMs with varied management containers are given to the real reception manager and the LDM is queried for exactly one object located at the event position.",
    "A 20 s wall-clock watchdog on the lock-step stepping ends a run as inconclusive; the application's fixed 1 s interval is varied through its public attribute.",
    "DESIGN.md 3/C17")

add("C18", "runtime monitor: consistency predicates on hooked fields + a reference acceptor of the clause 5.4.2 timing rules after every event; closed loops of real VRU services through the real VAM coder",
    "Exploration: every event sequence to depth 4 (quick) / 5 (thorough) over 19 events (role on/off, try-create with and without nearby VRUs, initiate-join, cancel, leave, break-up, received VAMs: plain / cluster info of the target or another cluster / join towards the own cluster / break-up announcement from the leader with an ordinary or the CPM reason / plain leader VAM, update with clock steps 50 ms, 500 ms, 1 s, 3.1 s) from three start situations, plus random walks of 40-200 events; after every event: leader iff owned cluster with id 1..255 and cardinality >= 1, passive iff joined cluster + known leader + armed leader-lost timer, transmission suppressed only while passive/idle, and state / should_transmit / operation-container kind and ids compared with the acceptor (join notification 3 s, waiting 0.5 s, leave notification 1 s, break-up warning 3 s, leader lost after 2 s, break-up announcement). Closed loops: 4-5 real VRUAwarenessService stacks exchange real encoded VAMs; a leader emerges, advertises, a member joins (must end PASSIVE, leader cardinality grows), then the leader falls silent or breaks up and the member must be stand-alone and transmitting again.",
    "Time-driven transitions are expected at update() calls ('by the next update' literally); the acceptor compares public observables only.",
    "DESIGN.md 3/C18")

add("C15", "controlled scheduler (sys.monitoring INSTRUCTION events + scheduler-aware lock/timer proxies) choosing the thread interleaving of the real router and location table; offline conservation/uniqueness checkers over each recorded execution",
    "Exploration: one real Router/LocationTable is driven by 2-4 actor threads performing 1-3 operations each (originate GBC/GAC/GUC/SHB, deliver SHB/GBC/duplicate GBC/LS request/LS reply frames, refresh the ego position) in three scenario families (origination, contention-based forwarding, location service); CBF and LS timers armed by the router are further actors that the controller may expire at any step until cancel() is called. Schedules: breadth-first over all schedules with up to 3 preemptions placed at synchronisation operations (lock acquire/release, timer start/cancel, transmission), every single preemption at every attribute/subscript/call instruction of router.py and location_table.py, sampled pairs of such preemptions, and randomised schedules with geometric run lengths and eager/lazy timers. After each execution: SN uniqueness of originated multi-hop packets, CBF conservation (inserted = transmitted by expiry + removed by a duplicate; at most one transmission per packet), ego PV of every emitted frame in the set of installed PVs, LS conservation (each buffered request transmitted exactly once or dropped by the give-up branch), no exception (also those swallowed by the receive guard), no deadlock.",
    "Interleavings are sequentially consistent at bytecode-instruction granularity (what CPython executes); preemption bound 3 (sync) / 2 (instruction) plus random schedules, not all schedules; a stale (already expired) timer object left in _ls_timers is not judged.",
    "DESIGN.md 3/C15")

add("C16", "controlled scheduler (sys.monitoring INSTRUCTION events + scheduler-aware lock proxies) choosing the thread interleaving of the real LDM; histories recorded at the IF.LDM.3/IF.LDM.4 boundary checked for linearizability (Wing-Gong search) per object, per provider and per consumer-with-subscriptions",
    "Exploration: a real LDM (Dictionary back-end; reactive/threaded service x reactive/threaded maintenance) with 1-3 live and 0-2 expired pre-stored objects, 0-2 pre-made subscriptions and 2-3 registered applications is driven by 2-4 actors issuing 1-4 calls each (add live/expired/by an unregistered provider, update, delete, query, register/deregister provider and consumer, subscribe, unsubscribe, maintenance pass, attendance pass; reactive passes inside add after a clock step). Schedules as for C15 (up to 3 preemptions at lock operations breadth-first, every single instruction-level preemption in the nine LDM modules, sampled pairs, randomised). Every call, response, callback and maintenance removal is recorded with one event counter; per object the add/update/delete/removal/observation history (queries, notifications, final store) must be linearizable against unborn->present(version)->absent, maintenance may remove only expired objects, identifiers must be distinct and each accepted add stored once; per provider the register/deregister(ack)/add-accepted history, and per consumer the register/deregister(ack)/query-accepted/subscribe/unsubscribe(ack)/final-registry-and-final-notified-set history must be linearizable; no notification in a pass begun after a completed removal, every attendance pass notifies every subscription that was live throughout; no exception, no deadlock.",
    "Registration checks inside add/query are linearised per registry, not jointly with the store (an add accepted while its provider deregisters is not a violation); background loops of the threaded variants are explicit operations; the TinyDB back-end is out of the property's scope; preemption bound 3/2 plus random schedules, not all schedules.",
    "DESIGN.md 3/C16")

# Workload classes added after independent agents had seeded changes the first versions missed (DESIGN.md 3a)
ADDED = {
    "C01": " Also: stations that get new position fixes between requests (through the router's own TPV refresh with whole-second timestamps, or millisecond timestamps), so that several fixes share one timestamp and the packet's SO PV differs from what a receiver's location table holds.",
    "C02": " The LS request that provokes an LS reply carries the requester's own traffic class, hop budget, lifetime and mobility flag, none of which may show up in the reply.",
    "C03": " Authentic frames of a hostile ticket holder (signed header carrying a rogue root / AA / ticket in requestedCertificate, or certificate requests) are placed before and between the forged frames; frames under the attacker's chain must stay undeliverable afterwards.",
    "C06": " Also: SCF bit set and forwarders without any neighbour; the station leaving the destination area while its copy waits in the CBF buffer; a packet buffered, cancelled by its duplicate, pushed out of a short duplicate list and buffered again inside one contention window (only the second instance's copy may be sent).",
    "C07": " History classes: families of areas sharing the centre evaluated by one long-lived router at one receiver position with one parameter changing at a time (azimuth, semi-axes, shape) and back; sequences of packets to one long-lived receiver that may move in between; Annex D with a location-table position of the sender that is newer than (and on the other side of the border from) the one in a delayed packet.",
    "C09": " Part S also runs with a real SignService behind the VerifyService and with messages of genuine signers whose signed header carries certificates (rogue root / AA / ticket) or certificate requests, and in a second PKI flavour (root with explicit issuing groups, AA holding an application permission it may not issue, AA certificate put together by the harness). Part I includes issuers whose PSID groups have different remaining chain lengths.",
    "C10": " CAM runs include injected lower-layer faults (the BTP router raises at chosen call ordinals): a refused CAM counts neither as a CAM nor as the last one that carried the low-frequency container; the speed/heading content of every CAM is compared with ITS OWN report (missing key -> unavailable).",
    "C11": " Also: CAM trajectories with position jumps of 0.0131..1 degree in one or both axes and a path-history oracle (each path point is the true offset of an earlier CAM position or 'unavailable'; a jump must not stall the service); report streams through one long-lived CA / VRU service instance in which the set of keys changes from report to report (device data configured with plain dicts or defaults).",
    "C13": " Between requests the store keeps changing (updates, deletes - the same operation on both back-ends and the model) and requests are repeated; order attributes include ones whose path depends on the message type (stationType, generationDeltaTime).",
    "C14": " Consumer callbacks may use IF.LDM.4 again from inside the attendance pass (unsubscribe themselves, a sibling or the next subscription of the pass; deregister themselves or another consumer): one event counter orders callbacks and ends of subscriptions, and a notification after an acknowledged end is a violation also inside the same pass. Order attributes include type-dependent paths over multi-type subscriptions.",
    "C15": " Every tier has a CBF scenario with a duplicate list of length 1 in which a packet is buffered, cancelled by its duplicate, pushed out of the list and buffered again while the first contention timer may be armed or already fired: the cancelled instance must never be transmitted and the new one must be.",
    "C16": " process_notifications is hooked: a notification decided (lock taken, subscription looked up) after a removal had completed is a violation even when the pass had begun before.",
    "C17": " Also: one emergency-vehicle service object re-triggered at a new position while its event is still repeating (the destination circle must follow the event position of the DENM being sent); streams of DENMs from several originating stations sharing sequence numbers, with repetitions and out-of-order reference times, into one receiver (every received event must be, and stay, in the LDM at its position).",
}

NOT_YET = "check not built yet (work in progress; runtime monitor planned in DESIGN.md section 3)"

def main():
    props = [json.loads(l)["id"] for l in open(os.path.join(HERE, "properties.jsonl"))]
    hooks_commits = []
    m = {
        "version": 1,
        "setup_cmd": "/venv/bin/python -B -c \"import sys; sys.path.insert(0,'/verif'); import vf.ref.wire as w, vf.ref.lifetime as l; w.selfcheck(); l.selfcheck(); print('reference models ok')\"",
        "hooks": {
            "guard": "FLEXSTACK_VERIF",
            "enable": "no source hooks are needed: checks run /venv/bin/python with $VERIF_REPO/src (default /repo/src) first on sys.path and rebind clock/timer/lock/socket names from the harness; FLEXSTACK_VERIF=1 is exported by the checks for future hooks",
            "baseline_off_cmd": "cd /repo && env -u FLEXSTACK_VERIF /venv/bin/python -m pytest -q -p no:cacheprovider --timeout=900 --continue-on-collection-errors",
            "source_commits": hooks_commits,
            "add_only": True,
        },
        "engines": [{"name": "vf", "path": "vf/", "serves_properties": sorted(CHECKS), "kind_free_text": "runtime monitoring harness: virtual clock, simulated ether, station factory, independent reference models (vf/ref), sharded subprocess driver with three-valued verdicts and mechanism-keyed known findings"}],
        "checks": [],
        "not_applicable": [],
        "notes": "All checks are runtime monitors over executions of the real code in /repo's working tree; exit 0 held / 1 VIOLATION / 2 INCONCLUSIVE. Known findings: known_findings.json (mechanism keyed).",
    }
    for pid in props:
        if pid in CHECKS:
            c = CHECKS[pid]
            m["checks"].append({
                "property_id": pid,
                "quick_cmd": f"./check {pid} --tier quick",
                "thorough_cmd": f"./check {pid} --tier thorough",
                "evidence_file": f"/verif/evidence/{pid}.json",
                "replay_cmd_template": f"./check {pid} --replay {{path}}",
                "engine": "vf",
                "level_claimed": {"category": "exploration", "text": c["text"] + ADDED.get(pid, ""), "design_ref": c["design"] + (" and 3a" if pid in ADDED else "")},
                "level_note": c["note"],
                "technique": c["technique"],
            })
        else:
            m["not_applicable"].append({"property_id": pid, "reason": NOT_YET})
    with open(os.path.join(HERE, "MANIFEST.json"), "w") as f:
        json.dump(m, f, indent=1)

main()
