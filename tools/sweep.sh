#!/bin/bash
# tools/sweep.sh <tier> <seed>...   runs every check at the given seeds; evidence goes to evidence/<id>.json.seed (git-ignored)
# prints one line per (check, seed); exit 1 if any run was not exit 0
tier=$1; shift
HERE="$(cd "$(dirname "${BASH_SOURCE[0]}")/.." && pwd)"
cd "$HERE"
bad=0
for s in "$@"; do
  for c in ${CHECKS:-C01 C02 C03 C04 C05 C06 C07 C08 C09 C10 C11 C12 C13 C14 C15 C16 C17 C18 C19 C20}; do
    t0=$(date +%s)
    out=$(VERIF_EVIDENCE_SUFFIX=.seed ./check $c --tier $tier --seed $s 2>&1); rc=$?
    echo "$c seed=$s tier=$tier exit=$rc t=$(( $(date +%s)-t0 ))s :: $(echo "$out" | tail -1)"
    if [ $rc -ne 0 ]; then bad=1; echo "$out" | grep -E 'VIOLATION|INCONCLUSIVE|key=' | head -20; fi
  done
done
exit $bad
